"""./check <ID> [--tier quick|thorough] [--replay file] [--workers N]

Exit 0: property held on everything explored (known findings printed as KNOWN-FINDING lines).
Exit 1: at least one violation not listed in known_findings.json (VIOLATION lines).
Exit 2: the harness itself failed.
"""
from __future__ import annotations

import argparse
import importlib
import json
import os
import sys
import time


def main(argv: list[str] | None = None) -> int:
    ap = argparse.ArgumentParser()
    ap.add_argument("prop")
    ap.add_argument("--tier", choices=["quick", "thorough"], default=None)
    ap.add_argument("--replay", default=None)
    ap.add_argument("--workers", type=int, default=None)
    ap.add_argument("--shard-filter", default=None, help="debug: only shards whose repr contains this")
    args = ap.parse_args(argv)

    prop = args.prop.upper()
    tier = args.tier or os.environ.get("VERIF_TIER") or "quick"
    if tier not in ("quick", "thorough"):
        tier = "quick"
    try:
        seed = int(os.environ.get("VERIF_SEED", "0"))
    except ValueError:
        seed = 0

    from vf.core import env

    modname = f"vf.props.{prop.lower()}"
    # peek at module attributes without importing sigpyproc: modules import lazily
    th = env.prepare(num_threads=1)
    mod = importlib.import_module(modname)
    nthreads = getattr(mod, "NUM_THREADS", 1)
    if nthreads != 1:
        env.prepare(num_threads=nthreads)
    env.prune_caches()
    scratch = env.scratch_root()

    from vf.core import engine

    ctx = engine.Ctx(prop=prop, tier=tier, seed=seed, repo=str(env.repo_dir()), scratch=str(scratch))
    t0 = time.time()

    # warm the numba cache for this tree in the main process (eager kernels compile on import)
    try:
        importlib.import_module("sigpyproc.readers")
    except BaseException as e:  # noqa: BLE001
        # a tree that does not import is not something a check can decide
        print(f"HARNESS-ERROR: cannot import sigpyproc from {ctx.repo}: {e!r}", flush=True)
        return 2
    if hasattr(mod, "warm"):
        mod.warm(ctx)

    if args.replay:
        data = json.loads(open(args.replay).read())
        case = data["case"]
        status, res, why = engine.run_case_isolated(modname, case["shard"], case.get("inner"), ctx)
        if status == "died":
            print(f"VIOLATION property={prop} replay={args.replay}")
            print("  signature:", json.dumps({"site": "process", "symptom": "interpreter died while replaying the case"}))
            print("  detail:", why[:1500])
            return 1
        if status == "error":
            print("HARNESS-ERROR: replay raised\n" + why[-1500:])
            return 2
        if res.violations:
            for v in res.violations:
                print(f"VIOLATION property={prop} replay={args.replay}")
                print("  signature:", json.dumps(v["signature"], default=str))
                print("  detail:", v["detail"][:1500])
            return 1
        print(f"replay {args.replay}: no violation ({res.evaluations} evaluations)")
        return 0

    shards = list(mod.shards(tier, seed))
    if args.shard_filter:
        shards = [s for s in shards if args.shard_filter in repr(s)]
    nworkers = args.workers or int(os.environ.get("VF_WORKERS", "0")) or min(16, os.cpu_count() or 1)
    nworkers = min(nworkers, getattr(mod, "MAX_WORKERS", 16))
    total, errors = engine.run_shards(modname, shards, ctx, nworkers)

    extra = {}
    if hasattr(mod, "finalize"):
        extra = mod.finalize(total, ctx) or {}

    # ---- classify violations -----------------------------------------------------------
    findings = engine.load_findings(prop)
    by_sig: dict[str, list[dict]] = {}
    for v in total.violations:
        by_sig.setdefault(engine.sig_key(v["signature"]), []).append(v)

    new_violations: list[tuple[dict, str]] = []
    known_hits: dict[str, int] = {}
    harness_errors = list(errors)
    for key, vs in sorted(by_sig.items()):
        v = vs[0]
        f = engine.match_finding(v["signature"], findings)
        if f is not None:
            known_hits[f["id"]] = known_hits.get(f["id"], 0) + len(vs)
            continue
        # reproduce once from fresh inputs before reporting
        if getattr(mod, "REPRODUCE", True) and not v["case"].get("no_reproduce"):
            status, rr, why = engine.run_case_isolated(modname, v["case"]["shard"], v["case"].get("inner"), ctx)
            if status == "error":
                harness_errors.append(f"re-run of violating case raised {why[-600:]}")
                continue
            # a re-run that kills its interpreter (memory corruption in compiled code) confirms rather than refutes the violation
            # ... and so does a re-run that violates in another way (e.g. the library now raises where it returned a wrong value before)
            same = [v] if status == "died" else ([x for x in rr.violations if engine.sig_key(x["signature"]) == key] or rr.violations[:1])
            if not same:
                harness_errors.append(
                    "violation did not reproduce on re-run (harness nondeterminism): "
                    + json.dumps(v, default=str)[:800],
                )
                continue
        path = engine.write_replay(prop, v)
        new_violations.append((v, path))

    for f in findings:
        if f["id"] in known_hits:
            print(f"KNOWN-FINDING: property={prop} {f['what']} [{f['id']}; {known_hits[f['id']]} recorded cases]")
    for v, path in new_violations:
        print(f"VIOLATION property={prop} replay={path}")
        print("  signature:", json.dumps(v["signature"], default=str))
        print("  detail:", v["detail"][:1200].replace("\n", "\n    "))

    # ---- vacuity -----------------------------------------------------------------------
    required = list(getattr(mod, "REQUIRED_OUTCOMES", []))
    if callable(required):
        required = required(tier)
    missing = [o for o in required if total.outcomes.get(o, 0) == 0]
    if missing and not new_violations:
        harness_errors.append(f"vacuous exploration: outcome classes never seen: {missing}")
    if total.evaluations == 0:
        harness_errors.append("no case was evaluated")

    # ---- evidence ----------------------------------------------------------------------
    wall = time.time() - t0
    level = getattr(mod, "LEVEL", "exploration")
    coverage = {
        "evaluations": int(total.evaluations),
        "distinct_nontrivial": int(total.nontrivial),
        "rule": getattr(mod, "RULE", ""),
        "samples": total.samples[:6] or [{"note": "no sample recorded"}],
        "exhaustive": bool(not total.caps and not errors),
        "outcomes": dict(sorted(total.outcomes.items())),
        "counters": {k: (int(v) if float(v).is_integer() else v) for k, v in sorted(total.counters.items())},
        "max_observed": dict(sorted(total.maxima.items())),
        "skipped_ambiguous": dict(sorted(total.skipped.items())),
        "caps_hit": total.caps,
        "shards": len(shards),
        "workers": nworkers,
        "bounds": {**(mod.bounds(tier) if hasattr(mod, "bounds") else {}), **({"scale_lane": mod.SCALE_LANE} if hasattr(mod, "SCALE_LANE") else {})},
        "known_findings_hit": known_hits,
        "tree_hash": th,
        "notes": total.notes,
    }
    coverage.update(extra)
    payload = {
        "property_id": prop,
        "tier": tier,
        "seed": seed,
        "level": level,
        "coverage": coverage,
        "assumptions": list(getattr(mod, "ASSUMPTIONS", [])),
        "wall_s": round(wall, 3),
        "violations": len(new_violations),
    }
    if harness_errors:
        payload["coverage"]["harness_errors"] = [e[:1500] for e in harness_errors[:10]]
    engine.write_evidence(prop, payload)

    summary = (
        f"{prop} tier={tier} seed={seed}: evaluations={total.evaluations} nontrivial={total.nontrivial} "
        f"outcomes={len(total.outcomes)} violations={len(new_violations)} known={sum(known_hits.values())} "
        f"wall={wall:.1f}s"
    )
    for k in ("states", "transitions", "schedules", "crash_states"):
        if k in coverage:
            summary += f" {k}={coverage[k]}"
    print(summary)
    if new_violations:
        return 1
    if harness_errors:
        for e in harness_errors[:10]:
            print("HARNESS-ERROR:", e[:3000])
        return 2
    return 0


if __name__ == "__main__":
    sys.exit(main())
