"""Run one shard in an isolated process: python -m vf.worker <job.json> <out.json> (used after a pool crash)."""
from __future__ import annotations

import json
import sys


def main() -> int:
    job = json.load(open(sys.argv[1]))
    from vf.core import env

    env.prepare(num_threads=job["num_threads"] if "num_threads" in job else 1)  # None = all cores (C19 varies the thread count itself)
    from vf.core import engine

    ctx = engine.Ctx(**job["ctx"])
    out = engine._run_shard(job["modname"], job["shard"], ctx, job.get("only"))
    json.dump(out, open(sys.argv[2], "w"), default=engine._json_default)
    return 0


if __name__ == "__main__":
    sys.exit(main())
