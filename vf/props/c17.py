"""C17 - re-tuning a folded cube depends only on the target DM/period, not on the history.

Engine B (explicit-state): BFS over all histories of update_dm/update_period calls on a real
FoldedData up to a depth; every state compared with a fresh cube re-tuned directly to the
state's reported (dm, period).
"""
from __future__ import annotations

from collections import deque

import numpy as np

PROP = "C17"
LEVEL = "model_checking"
RULE = (
    "BFS over all histories of {update_dm(d) : d in dm0,dm0+15,dm0+30,dm0-10} U {update_period(p) : p in p0,p0(1+1e-3),p0(1+2.5e-3),"
    "p0(1-1e-3),1.37p0} up to depth 4 (quick) / 5 (thorough) on cubes (3,4,16) and (5,2,12) with all-distinct contents (plus a 1-sub-band "
    "and a 1-sub-integration cube); state key = all mutable fields of the object (data bytes, dm, period, internal shift arrays); in every state: cube == fresh "
    "cube re-tuned directly to the reported (dm, period) in both call orders, every profile is a rotation of the folded profile, dm/period "
    "report the last targets, (dm0,p0) gives the original bits, and the measured rotation of every profile equals an independent float64 statement of the implied shift "
    "(dispersion delay of the sub-band in new bins + linear period drift; profiles within 1e-3 bin of a rounding boundary are counted, not judged). The same to depth 2 on cubes "
    "(128,2,32) and (200,4,50) of a 600 s observation with period steps of 2e-6 and -3e-6. Non-trivial = histories of length >= 2"
)
SCALE_LANE = 'cubes (128,2,32) and (200,4,50) (thorough up to (1000,2,64)) of a 600 s observation: all histories to depth 2 (3) over 6 operations incl. period steps of 2e-6 and -3e-6'
ASSUMPTIONS = [
    "targets come from a small alphabet chosen so that the implied shifts are non-zero and distinct; larger alphabets are sampled by a seeded random walk (thorough, auxiliary)",
    "the differential oracle uses the library itself on a fresh cube: it decides history-independence; the absolute shift model (C09's dispersion constant, linear drift) decides the single shift",
]
REQUIRED_OUTCOMES = ["state/ok", "state/back_to_folding_values", "state/repeat_noop", "centre/ok"]


def bounds(tier: str) -> dict:
    return {"depth": 4 if tier == "quick" else 5, "cubes": [[3, 4, 16], [5, 2, 12], [4, 1, 10], [1, 3, 8]], "alphabet": 9}


def shards(tier: str, seed: int) -> list:
    b = bounds(tier)
    out = []
    for ci, cube in enumerate(b["cubes"]):
        # split the first operation over shards
        for first in range(len(_ops())):
            out.append({"cube": cube, "depth": b["depth"], "first": first})
    if tier == "thorough":
        out.append({"cube": b["cubes"][0], "depth": 0, "first": -1, "random": 400})
    # the copy returned by centre() is a cube folded at the parent's current values: it must re-tune like a fresh cube holding the same data
    out.append({"cube": [3, 4, 64], "depth": 2, "first": -2, "centre": True})
    # large cubes (more sub-integrations than any block size is likely to be), long observation, period refinements of a few 1e-6
    for cube in ([[128, 2, 32], [200, 4, 50]] if tier == "quick" else [[65, 1, 16], [128, 2, 32], [200, 4, 50], [1000, 2, 64]]):
        for first in range(6):
            out.append({"cube": cube, "depth": 2 if tier == "quick" else 3, "first": first, "cfg": "long"})
    return out


DM0, P0 = 50.0, 0.016
# the large-cube lane: 10 minutes of data folded at 5 ms, so that a period refinement of 2e-6 is a drift of several bins
LONG = {"P0": 0.005, "nsamples": 600000}
_CFG = {"P0": P0, "nsamples": 10000}
K_DM = 4.148808e3


def _model_shifts(shape, dm, period):
    """Independent statement of the implied shift (in bins, to the left) of profile (i, s): dispersion delay of sub-band s relative to the first
    channel for (dm - DM0) in units of the new bin width, plus a drift growing linearly over the sub-integrations to dbins = (p/p0 - 1) tobs nbins/p0.
    Returns (shift[i, s], ambiguous[i, s]) - ambiguous where a rounding boundary is within the float32 evaluation error."""
    nints, nbands, nbins = shape
    p0 = _CFG["P0"]
    tobs = _CFG["nsamples"] * 1e-3
    f = 1500.0 + np.arange(nbands) * (-50.0 * 8 / nbands)
    x = K_DM * (dm - DM0) * (f**-2.0 - 1500.0**-2.0) / (period / nbins)
    dbins = (period / p0 - 1.0) * tobs * nbins / p0
    y = np.arange(nints) * dbins / nints
    amb = (np.abs(np.abs(x - np.floor(x)) - 0.5) < 1e-3 + 1e-6 * np.abs(x))[None, :] | (np.abs(np.abs(y - np.floor(y)) - 0.5) < 1e-3 + 1e-6 * np.abs(y))[:, None]
    return (np.round(y)[:, None] + np.round(x)[None, :]).astype(np.int64), amb


def _ops():
    if _CFG is not None and _CFG["P0"] != P0:
        p0 = _CFG["P0"]
        return [("p", p0 * (1 + 2e-6)), ("dm", DM0 + 15), ("p", p0 * (1 - 3e-6)), ("p", p0 * (1 + 1e-3)), ("p", p0), ("dm", DM0)]
    return [("dm", DM0), ("dm", DM0 + 15), ("dm", DM0 + 30), ("dm", DM0 - 10),
            ("p", P0), ("p", P0 * (1 + 1e-3)), ("p", P0 * (1 + 2.5e-3)), ("p", P0 * (1 - 1e-3)),
            # a large period change: the bin width changes enough for the DM shifts (in bins) to differ
            ("p", P0 * 1.37)]


def _fresh(shape):
    from sigpyproc.foldedcube import FoldedData
    from sigpyproc.header import Header

    nints, nbands, nbins = shape
    hdr = Header(filename="c.fil", data_type="filterbank", nchans=8, foff=-50.0, fch1=1500.0, nbits=32, tsamp=1e-3,
                 tstart=58000.0, nsamples=_CFG["nsamples"])
    data = (np.arange(nints * nbands * nbins, dtype=np.float32) + 1).reshape(nints, nbands, nbins)
    return FoldedData(data.copy(), hdr, _CFG["P0"], DM0), data


def _apply(fd, op):
    if op[0] == "dm":
        fd.update_dm(op[1])
    else:
        fd.update_period(op[1])


def _key(fd):
    parts = []
    for k, v in sorted(vars(fd).items()):
        if isinstance(v, np.ndarray):
            parts.append((k, v.tobytes()))
        elif isinstance(v, (int, float, np.floating, np.integer)):
            parts.append((k, float(v)))
    return tuple(parts)


def _check_state(shape, hist, fd, orig, res, shard) -> bool:
    case = {"shard": shard, "inner": [list(h) for h in hist]}
    last_dm = next((v for k, v in reversed(hist) if k == "dm"), DM0)
    last_p = next((v for k, v in reversed(hist) if k == "p"), _CFG["P0"])
    if fd.dm != last_dm or fd.period != last_p:
        res.violation({"site": "FoldedData", "symptom": "reported dm/period are not the last targets"}, case,
                      f"reports dm={fd.dm} period={fd.period}, last targets {last_dm}, {last_p}")
        return False
    # every profile must be a rotation of the folded profile
    nints, nbands, nbins = shape
    rot = np.zeros((nints, nbands), dtype=np.int64)
    for i in range(nints):
        for b in range(nbands):
            prof = fd.data[i, b]
            k = int(np.argmax(prof == orig[i, b, 0])) if (prof == orig[i, b, 0]).any() else -1
            if k < 0 or not np.array_equal(np.roll(orig[i, b], k), prof):
                res.violation({"site": "FoldedData", "symptom": "profile is not a rotation of the folded profile"}, case,
                              f"subint {i} subband {b}: {prof.tolist()} vs folded {orig[i, b].tolist()}")
                return False
            rot[i, b] = k
    # absolute oracle: the rotation of every profile is the shift implied by the final (dm, period)
    want, amb = _model_shifts(shape, last_dm, last_p)
    bad = ((rot - (-want)) % nbins != 0) & ~amb
    res.count("model_profiles_checked", int((~amb).sum()))
    res.count("model_profiles_ambiguous", int(amb.sum()))
    if bad.any():
        i, b = (int(v) for v in np.argwhere(bad)[0])
        res.violation({"site": "FoldedData", "symptom": "profile rotation differs from the shift implied by the final dm/period"}, case,
                      f"history {hist}: subint {i} subband {b} is rotated by {int(rot[i, b])} bins, the model implies {int((-want[i, b]) % nbins)} (of {nbins}); {int(bad.sum())} of {bad.size} profiles differ")
        return False
    # differential oracle: fresh cube tuned directly, both orders
    refs = []
    for order in (("dm", "p"), ("p", "dm")):
        f2, _ = _fresh(shape)
        for what in order:
            _apply(f2, ("dm", last_dm) if what == "dm" else ("p", last_p))
        refs.append(np.array(f2.data))
    if not np.array_equal(refs[0], refs[1]):
        res.violation({"site": "FoldedData", "symptom": "direct re-tuning depends on the order of update_dm/update_period"}, case,
                      f"targets dm={last_dm} period={last_p}")
        return False
    if not np.array_equal(fd.data, refs[0]):
        diff = np.argwhere((fd.data != refs[0]).any(axis=2))[:3].tolist()
        res.violation({"site": "FoldedData", "symptom": "cube depends on the update history"}, case,
                      f"history {hist} ends at dm={last_dm} period={last_p}; differs from a fresh cube tuned directly in (subint,subband) {diff}")
        return False
    if last_dm == DM0 and last_p == _CFG["P0"]:
        if not np.array_equal(fd.data, orig):
            res.violation({"site": "FoldedData", "symptom": "returning to the folding values does not restore the cube"}, case, f"history {hist}")
            return False
        res.outcome("state/back_to_folding_values")
    if len(hist) >= 2 and hist[-1] == hist[-2]:
        res.outcome("state/repeat_noop")
    res.outcome("state/ok")
    if len(hist) >= 2:
        res.nontrivial += 1
    return True


def run_shard(shard: dict, ctx, res, only=None) -> None:
    global _CFG
    _CFG = dict(LONG) if shard.get("cfg") == "long" else {"P0": P0, "nsamples": 10000}
    shape = tuple(shard["cube"])
    ops = _ops()
    if shard.get("centre"):
        return _centre(shape, shard, res, only)
    if only is not None:
        fd, orig = _fresh(shape)
        hist = [tuple(h) for h in only]
        for op in hist:
            _apply(fd, op)
        res.evaluations += 1
        _check_state(shape, hist, fd, orig, res, shard)
        return
    if shard.get("centre"):
        return _centre(shape, shard, res, only)
    if shard.get("random"):
        import random

        rng = random.Random(ctx.seed)
        fd, orig = _fresh(shape)
        hist = []
        for _ in range(shard["random"]):
            op = rng.choice(ops) if rng.random() < 0.7 else (("dm", DM0 + rng.choice([-40, -3.5, 7.25, 60]))
                                                             if rng.random() < 0.5 else ("p", P0 * (1 + rng.choice([-3e-3, 4e-4, 5e-3]))))
            _apply(fd, op)
            hist.append(op)
            res.evaluations += 1
            res.count("aux_random_ops")
            if not _check_state(shape, hist, fd, orig, res, shard):
                break
        return
    seen = {}
    first = ops[shard["first"]]
    try:
        fd, orig = _fresh(shape)
        if shard["first"] == 0:
            # the initial state itself (empty history) is checked once
            res.evaluations += 1
            _check_state(shape, [], fd, orig, res, shard)
        _apply(fd, first)
    except Exception as e:  # noqa: BLE001
        res.violation({"site": "FoldedData.update", "symptom": f"raised {type(e).__name__}"}, {"shard": shard, "inner": [list(first)]}, repr(e))
        return
    res.evaluations += 1
    ntrans = 1
    if not _check_state(shape, [first], fd, orig, res, shard):
        return
    seen[_key(fd)] = [first]
    frontier = deque([[first]])
    while frontier:
        hist = frontier.popleft()
        if len(hist) >= shard["depth"]:
            continue
        for op in ops:
            fd, orig = _fresh(shape)
            h2 = hist + [op]
            try:
                for o in h2:
                    _apply(fd, o)
            except Exception as e:  # noqa: BLE001
                res.violation({"site": "FoldedData.update", "symptom": f"raised {type(e).__name__}"}, {"shard": shard, "inner": [list(o) for o in h2]}, repr(e))
                continue
            ntrans += 1
            res.evaluations += 1
            if not _check_state(shape, h2, fd, orig, res, shard):
                continue
            k = _key(fd)
            if k not in seen:
                seen[k] = h2
            # histories, not states, drive the search: two histories reaching the same state are both extended up to the depth bound
            frontier.append(h2)
    res.count("states", len(seen))
    res.count("transitions", ntrans)
    res.maximum("max_depth", shard["depth"])
    res.sample({"shard": shard, "example_history": [list(o) for o in max(seen.values(), key=len)], "distinct_states": len(seen)}, cap=1)


def _centre(shape, shard, res, only):
    from sigpyproc.foldedcube import FoldedData

    ops = _ops()
    pres = [[], [("dm", DM0 + 15)], [("p", P0 * (1 + 1e-3)), ("dm", DM0 + 30)], [("dm", DM0 - 10), ("p", P0 * 1.37)]]
    seqs = [[a] for a in ops] + [[a, b] for a in ops for b in ops]
    for pi, pre in enumerate(pres):
        for seq in seqs:
            inner = ["centre", pi, [list(o) for o in seq]]
            if only is not None and inner != only:
                continue
            res.evaluations += 1
            case = {"shard": shard, "inner": inner}
            try:
                fd, _ = _fresh(shape)
                # a pulse, so that centring has something to find
                fd.data[:, :, 20:24] += 1000.0
                for o in pre:
                    _apply(fd, o)
                cen = fd.centre()
                if cen.dm != fd.dm or cen.period != fd.period:
                    res.violation({"site": "FoldedData.centre", "symptom": "centred copy reports a different dm/period than its parent"}, case, f"{cen.dm}/{cen.period} vs {fd.dm}/{fd.period}")
                    continue
                start = np.array(cen.data)
                ref = FoldedData(start.copy(), fd.header, fd.period, fd.dm)
                cen.update_dm(cen.dm)
                cen.update_period(cen.period)
                if not np.array_equal(cen.data, start):
                    res.violation({"site": "FoldedData.centre", "symptom": "re-installing the reported dm/period changes the centred copy"}, case, f"after history {pre}")
                    continue
                for o in seq:
                    _apply(cen, o)
                    _apply(ref, o)
                if not np.array_equal(cen.data, ref.data) or cen.dm != ref.dm or cen.period != ref.period:
                    res.violation({"site": "FoldedData.centre", "symptom": "centred copy re-tunes differently from a fresh cube holding the same data"}, case,
                                  f"parent history {pre}, then {seq}")
                    continue
                cen.update_dm(fd.dm)
                cen.update_period(fd.period)
                if not np.array_equal(cen.data, start):
                    res.violation({"site": "FoldedData.centre", "symptom": "returning to the values it was created with does not restore the centred copy"}, case, f"parent history {pre}, then {seq}")
                    continue
                res.outcome("centre/ok")
                res.nontrivial += 1
            except Exception as e:  # noqa: BLE001
                res.violation({"site": "FoldedData.centre", "symptom": f"raised {type(e).__name__}"}, case, repr(e))


def finalize(total, ctx) -> dict:
    st = int(total.counters.get("states", 0))
    tr = int(total.counters.get("transitions", 0))
    return {"states": st, "transitions": tr, "traces_validated_against_impl": tr,
            "explanation": "all operation histories up to the depth bound are executed on the real FoldedData (fresh object per history); states counted are distinct canonical keys"}
