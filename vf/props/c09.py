"""C09 - one dispersion law, applied identically by every dedispersion path.

Engine A. Part 1: the delay table over bands x tsamp x DM x reference. Part 2: every
dedispersion entry point on labelled data against x[c, t + d_c(DM)] with the library's own d_c.
"""
from __future__ import annotations

from fractions import Fraction

import numpy as np

from vf.core import fixtures as fx

PROP = "C09"
LEVEL = "exploration"
RULE = (
    "part 1: bands {(1500,-10,8),(1400,-1/3,6),(1200,+5,4),(1400,-1,1)} x tsamp {1e-3,64e-6,1e-5} x 11 DMs of both signs x "
    "reference {ch1,max,min,center,numeric}: zero at the reference channel, antisymmetric in DM, monotone in frequency, within "
    "0.5+1e-3(1+|d|) samples of the exact-rational formula. part 2: per band, every DM of a set with both signs and maxdelay<nsamps x "
    "{block rotation, valid-samples variant} x reference choices (4 named + 4 numeric incl. outside the band), streamed dedispersion x gulps {1,5,7,N,10N}, read_dedisp_block x "
    "every in-range (start,nsamps), every row of dmt_transform (full and valid, 1..5 steps), pulse restoration and DM,-DM identity; "
    "compared exactly with x[c,t+d_c] on labelled data. Non-trivial = any case with a non-zero delay"
)
SCALE_LANE = 'blocks of 10 007 samples through every entry point (3 band/DM pairs quick, 6 thorough; stream gulps 4096, 4099, N); antisymmetry and the dispersion law on 1200 (6000) DMs x 3 wide bands of 64-256 channels'
ASSUMPTIONS = [
    "part 2 uses the library's own delay table (part 1 checks it against the physical law)",
    "for delay tables with negative entries the valid-sample outputs are defined for t >= t0 = -min(d,0); out[t'] = x[c, t'+t0+d_c] is accepted (time origin advanced by t0)",
    "labelled float32 data: sums over channels are exact",
]
REQUIRED_OUTCOMES = ["table/ok", "sweep/ok", "sweep/near_rounding_tie", "block_roll/ok", "block_valid/ok", "stream/ok", "read_dedisp/ok", "dmt/ok", "dmt_valid/ok", "pulse/ok", "identity/ok"]

BANDS = [(1500.0, -10.0, 8, 1e-3), (1400.0, -1 / 3, 6, 64e-6), (1200.0, 5.0, 4, 1e-3), (1400.0, -1.0, 1, 1e-3)]
DMS = {0: [0.0, 10.0, -10.0, 30.0, -30.0, 60.0, 100.0, -100.0],
       1: [0.0, 30.0, -30.0, 100.0, -100.0, 200.0],
       2: [0.0, 40.0, -40.0, 100.0, -100.0, 250.0],
       3: [0.0, 50.0, -50.0]}
NS = 24
WIDE_BANDS = [(1500.0, -2.0, 64, 128e-6), (1510.0, -0.5, 256, 64e-6), (400.0, 0.390625, 128, 1e-3)]
K = 4.148808e3


def bounds(tier: str) -> dict:
    return {"bands": BANDS, "nsamps": [NS] if tier == "quick" else [NS, 37], "dms": DMS if tier == "quick" else "DM sets x {0.5, 0.75, 1, 1.5}",
            "gulps": "1, 5, 7, N, 10N"}


def shards(tier: str, seed: int) -> list:
    out = [{"kind": "table", "band": b} for b in range(len(BANDS))]
    # delays of hundreds to thousands of samples on wide bands, DMs on a fine grid: rounding ties (a float32 delay of exactly k + 1/2) occur about once
    # in 1e4 elements, and only there can the rounding rule break the antisymmetry
    for wb in range(len(WIDE_BANDS)):
        out.append({"kind": "sweep", "wide": wb, "ndm": 1200 if tier == "quick" else 6000})
    for b in range(len(BANDS)):
        for dm in DMS[b]:
            out.append({"kind": "paths", "band": b, "dm": dm, "ns": NS})
    # scale lane: blocks of about 10 000 samples (beyond any 4096-sample tile) through every entry point, reduced parameter sets
    for b, dm in ((0, 100.0), (0, -30.0), (2, 100.0)) if tier == "quick" else ((0, 100.0), (0, -30.0), (0, 60.0), (1, 200.0), (2, 100.0), (2, -40.0)):
        out.append({"kind": "paths", "band": b, "dm": dm, "ns": 10007})
        if tier == "thorough":
            # a second, odd block length and a finer DM grid
            extra = sorted({round(x * f, 3) for x in DMS[b] for f in (0.5, 0.75, 1.5)} - set(DMS[b]))
            for dm in extra:
                out.append({"kind": "paths", "band": b, "dm": dm, "ns": NS})
            for dm in [*DMS[b], *extra]:
                out.append({"kind": "paths", "band": b, "dm": dm, "ns": 37})
    return out


def _hdr(wd, band, tsamp=None, nsamps=NS, nbits=32, seed=0):
    from sigpyproc.readers import FilReader

    fch1, foff, C, ts = BANDS[band]
    ts = tsamp or ts
    X = fx.label_data(nsamps, C, nbits, seed)
    p = fx.make_fileset(wd, X, nbits, [nsamps], fch1=fch1, foff=foff, tsamp=ts, stem=f"b{band}_{ts}_")
    return X, FilReader(p)


def run_shard(shard: dict, ctx, res, only=None) -> None:
    import sigpyproc.readers as _rd

    _rd.track = lambda it, **k: it  # progress bar only
    wd = ctx.workdir("c09")
    if shard["kind"] == "table":
        _table(wd, shard, ctx, res, only)
    elif shard["kind"] == "sweep":
        _sweep(wd, shard, ctx, res, only)
    else:
        _paths(wd, shard, ctx, res, only)


# ------------------------------------------------------------------------------------------------


def _sweep(wd, shard, ctx, res, only):
    from sigpyproc.readers import FilReader

    fch1, foff, C, tsamp = WIDE_BANDS[shard["wide"]]
    X = fx.label_data(2, C, 8, 0)
    p = fx.make_fileset(wd, X, 8, [2], fch1=fch1, foff=foff, tsamp=tsamp, stem=f"w{shard['wide']}_")
    H = FilReader(p).header
    f = fch1 + np.arange(C) * foff
    ties = 0
    for i in range(1, shard["ndm"] + 1):
        dm = 0.25 * i
        if only is not None and [dm] != only:
            continue
        res.evaluations += 1
        case = {"shard": shard, "inner": [dm]}
        try:
            d = np.asarray(H.get_dmdelays(dm))
            dn = np.asarray(H.get_dmdelays(-dm))
        except Exception as e:  # noqa: BLE001
            res.violation({"site": "Header.get_dmdelays", "symptom": f"raised {type(e).__name__}"}, case, repr(e))
            continue
        exact = K * dm * (f**-2.0 - f[0] ** -2.0) / tsamp
        frac = np.abs(exact - np.floor(exact) - 0.5)
        near = int(np.sum(frac < 1e-4 * (1 + np.abs(exact) * 1e-3)))
        ties += near
        if not np.array_equal(dn, -d):
            c = int(np.flatnonzero(dn != -d)[0])
            res.violation({"site": "Header.get_dmdelays", "symptom": "not antisymmetric in DM", "at_rounding_tie": True}, case,
                          f"band {WIDE_BANDS[shard['wide']]} dm={dm}: channel {c}: d(+dm)={int(d[c])} d(-dm)={int(dn[c])} (law {exact[c]:.5f})")
            continue
        lim = 0.5 + 1e-3 * (1 + np.abs(d))
        if not np.all(np.abs(d - exact) <= lim):
            c = int(np.argmax(np.abs(d - exact) - lim))
            res.violation({"site": "Header.get_dmdelays", "symptom": "delay differs from the dispersion law"}, case, f"dm={dm} chan {c}: {int(d[c])} vs {exact[c]:.4f}")
            continue
        res.outcome("sweep/ok")
        if near:
            res.outcome("sweep/near_rounding_tie")
            res.nontrivial += 1
    res.count("delays_within_1e-4_of_a_tie", ties)


def _table(wd, shard, ctx, res, only):
    band = shard["band"]
    fch1, foff, C, _ = BANDS[band]
    for tsamp in (1e-3, 64e-6, 1e-5):
        X, fil = _hdr(wd, band, tsamp, nsamps=2, nbits=8)
        H = fil.header
        freqs = [Fraction(fch1) + c * Fraction(foff) for c in range(C)]
        f32 = np.asarray(H.chan_freqs, dtype=np.float64)
        # reference frequencies from the band definition itself (float32 channel labels, as the library documents), not from the library's f* properties
        refs = {"ch1": float(f32[0]), "max": float(f32.max()), "min": float(f32.min()), "center": fch1 - 0.5 * foff + 0.5 * foff * C, "num": 1234.5}
        for dm in (0.0, 0.5, -0.5, 7.0, -7.0, 56.78, -56.78, 300.0, -300.0, 1000.0, -1000.0):
            for rname, rval in refs.items():
                if only is not None and [tsamp, dm, rname] != only:
                    continue
                res.evaluations += 1
                case = {"shard": shard, "inner": [tsamp, dm, rname]}
                arg = rval if rname == "num" else rname
                try:
                    d = np.atleast_1d(np.asarray(H.get_dmdelays(dm, ref_freq=arg)))
                    dneg = np.atleast_1d(np.asarray(H.get_dmdelays(-dm, ref_freq=arg)))
                except Exception as e:  # noqa: BLE001
                    res.violation({"site": "Header.get_dmdelays", "symptom": f"raised {type(e).__name__}"}, case, repr(e))
                    continue
                if d.shape != (C,) or not np.issubdtype(d.dtype, np.integer):
                    res.violation({"site": "Header.get_dmdelays", "symptom": "wrong shape/dtype"}, case, f"{d.shape} {d.dtype}")
                    continue
                if not np.array_equal(dneg, -d):
                    res.violation({"site": "Header.get_dmdelays", "symptom": "not antisymmetric in DM"}, case, f"d(dm)={d.tolist()} d(-dm)={dneg.tolist()}")
                    continue
                # zero at the reference channel (a channel whose label equals the reference frequency)
                zero_at = [c for c in range(C) if abs(f32[c] - rval) <= 1e-9 * abs(rval)]
                if any(d[c] != 0 for c in zero_at):
                    res.violation({"site": "Header.get_dmdelays", "symptom": "non-zero delay at the reference channel", "ref": rname}, case,
                                  f"ref={rval!r} delays={d.tolist()}")
                    continue
                # monotone in frequency: delay non-increasing with frequency for dm>0, non-decreasing for dm<0
                order = np.argsort(f32)
                dd = np.diff(d[order])
                if (dm > 0 and np.any(dd > 0)) or (dm < 0 and np.any(dd < 0)) or (dm == 0 and np.any(d != 0)):
                    res.violation({"site": "Header.get_dmdelays", "symptom": "not monotone in frequency"}, case, f"dm={dm} delays(sorted by f)={d[order].tolist()}")
                    continue
                # physical law in exact rationals
                fr = Fraction(rval)
                worst = 0.0
                bad = None
                for c in range(C):
                    exact = Fraction(K) * Fraction(dm) * (1 / freqs[c] ** 2 - 1 / fr**2) / Fraction(tsamp)
                    dev = abs(float(Fraction(int(d[c])) - exact))
                    lim = 0.5 + 1e-3 * (1 + abs(int(d[c])))
                    worst = max(worst, dev / lim)
                    if not (dev <= lim):
                        bad = (c, int(d[c]), float(exact))
                res.maximum("table_dev_over_limit", worst)
                if bad:
                    res.violation({"site": "Header.get_dmdelays", "symptom": "delay differs from the dispersion law"}, case,
                                  f"chan {bad[0]}: delay {bad[1]} samples, law gives {bad[2]:.4f}")
                    continue
                res.outcome("table/ok")
                if np.any(d != 0):
                    res.nontrivial += 1
    res.sample({"shard": shard, "inner": [1e-3, 56.78, "center"]}, cap=1)


# ------------------------------------------------------------------------------------------------


def _ref_valid(X, d):
    """out[c, t'] = X[t' + t0 + d_c, c] over the common valid window; returns (out[C, nvalid], t0)."""
    n, C = X.shape
    t0 = max(0, -int(d.min()))
    nv = n - (max(0, int(d.max())) + t0)
    if nv <= 0:
        return None, t0
    out = np.stack([X[t0 + d[c] : t0 + d[c] + nv, c] for c in range(C)])
    return out, t0


def _paths(wd, shard, ctx, res, only):
    from sigpyproc.block import FilterbankBlock

    band, dm = shard["band"], shard["dm"]
    fch1, foff, C, tsamp = BANDS[band]
    n = int(shard.get("ns", NS))
    X, fil = _hdr(wd, band, nsamps=n, seed=ctx.seed)
    H = fil.header
    Xf = X.astype(np.float64)
    blk = fil.read_block(0, n)

    def ev(name, params):
        if only is not None and [name, params] != only:
            return None
        res.evaluations += 1
        return {"shard": shard, "inner": [name, params]}

    def good(name, d):
        res.outcome(f"{name}/ok")
        if np.any(np.asarray(d) != 0):
            res.nontrivial += 1

    # ---- block rotation and valid variant for each reference
    fhi, flo = float(max(H.fch1, H.fch1 + (C - 1) * H.foff)), float(min(H.fch1, H.fch1 + (C - 1) * H.foff))
    # named references plus numeric ones above, below and inside the band (int and float): all-positive / all-negative delay tables
    long = n > 1000
    refs_ = ("ch1", "max", "min", "center", fhi + 3 * abs(H.foff) + 1.5, int(round(fhi + 2 * abs(H.foff))) + 1, flo - 2 * abs(H.foff) - 0.25, 0.5 * (fhi + flo) + 0.1)
    for ref in (refs_[:1] + refs_[3:4] + refs_[6:7] if long else refs_):
        d = np.atleast_1d(np.asarray(H.get_dmdelays(dm, ref_freq=ref))).astype(int)
        case = ev("block_roll", [ref])
        if case:
            try:
                b = blk.dedisperse(dm, ref_freq=ref)
                want = np.stack([np.roll(Xf[:, c], -d[c]) for c in range(C)])
                if b.data.shape != want.shape or not np.array_equal(b.data, want):
                    res.violation({"site": "FilterbankBlock.dedisperse", "symptom": "wrong values"}, case, f"dm={dm} ref={ref} delays={d.tolist()}")
                elif b.dm != dm:
                    res.violation({"site": "FilterbankBlock.dedisperse", "symptom": "reports a different DM"}, case, f"{b.dm} vs {dm}")
                else:
                    good("block_roll", d)
                    # identity: DM then -DM
                    case2 = ev("identity", [ref])
                    if case2:
                        back = b.dedisperse(-dm, ref_freq=ref)
                        if not np.array_equal(back.data, blk.data):
                            res.violation({"site": "FilterbankBlock.dedisperse", "symptom": "dedisperse(DM) then dedisperse(-DM) is not the identity"}, case2, f"dm={dm} ref={ref}")
                        else:
                            good("identity", d)
            except Exception as e:  # noqa: BLE001
                res.violation({"site": "FilterbankBlock.dedisperse", "symptom": f"raised {type(e).__name__}"}, case, repr(e))
        case = ev("block_valid", [ref])
        if case:
            want, t0 = _ref_valid(Xf, d)
            try:
                b = blk.dedisperse(dm, ref_freq=ref, only_valid_samples=True)
                if want is None:
                    res.violation({"site": "FilterbankBlock.dedisperse(valid)", "symptom": "no valid sample exists but a block was returned"}, case, "")
                elif b.data.shape != want.shape or not np.array_equal(b.data, want):
                    res.violation({"site": "FilterbankBlock.dedisperse(valid)", "symptom": "wrong values", "negative_delays": bool(d.min() < 0)}, case,
                                  f"dm={dm} ref={ref} delays={d.tolist()} got shape {b.data.shape} want {want.shape}")
                else:
                    good("block_valid", d)
            except ValueError as e:
                if want is not None:
                    res.violation({"site": "FilterbankBlock.dedisperse(valid)", "symptom": "raised ValueError although valid samples exist"}, case, repr(e))
                else:
                    res.outcome("block_valid/rejected_no_samples")
            except Exception as e:  # noqa: BLE001
                res.violation({"site": "FilterbankBlock.dedisperse(valid)", "symptom": f"raised {type(e).__name__}"}, case, repr(e))

    d = np.atleast_1d(np.asarray(H.get_dmdelays(dm))).astype(int)
    want_v, t0 = _ref_valid(Xf, d)
    neg = bool(d.min() < 0)
    # ---- streamed dedispersion
    if want_v is not None:
        want_ts = want_v.sum(0)
        for g in ((4096, 4099, n) if long else (1, 5, 7, n, 10 * n)):
            case = ev("stream", [g])
            if not case:
                continue
            try:
                ts = fil.dedisperse(dm, gulp=g, quiet=True, description="vf")
                got = np.asarray(ts.data, dtype=np.float64)
                if got.shape != want_ts.shape or not np.array_equal(got, want_ts):
                    res.violation({"site": "Filterbank.dedisperse", "symptom": "wrong values", "negative_delays": neg}, case,
                                  f"dm={dm} delays={d.tolist()} got len {got.size} {got[:4].tolist()} want len {want_ts.size} {want_ts[:4].tolist()}")
                elif ts.header.dm != dm:
                    res.violation({"site": "Filterbank.dedisperse", "symptom": "reports a different DM"}, case, f"{ts.header.dm} vs {dm}")
                else:
                    good("stream", d)
            except Exception as e:  # noqa: BLE001
                res.violation({"site": "Filterbank.dedisperse", "symptom": f"raised {type(e).__name__}", "negative_delays": neg}, case, repr(e))
    # ---- read_dedisp_block: every in-range (start, nsamps)
    lo, hi = int(min(0, d.min())), int(max(0, d.max()))
    s0 = max(0, -lo)
    pairs = [(s0, n - hi - s0), (s0 + 1234, 4097), (s0 + 1, 8193), (n - hi - 4200, 4200), (0, 3), (n - 3, 3)] if long else [(a, b) for a in range(0, n) for b in range(1, n + 1)]
    for start, ns in pairs:
        if True:
            inr = start + int(d.min()) >= 0 and start + int(d.max()) + ns <= n
            if not inr and not (start + ns <= n and (ns in (1, 3))):
                continue
            case = ev("read_dedisp", [start, ns])
            if not case:
                continue
            try:
                b = fil.read_dedisp_block(start, ns, dm)
            except ValueError as e:
                if inr:
                    res.violation({"site": "FilReader.read_dedisp_block", "symptom": "ValueError on an in-range request"}, case, repr(e))
                else:
                    res.outcome("read_dedisp/out_of_range_raises")
                continue
            except Exception as e:  # noqa: BLE001
                res.violation({"site": "FilReader.read_dedisp_block", "symptom": f"raised {type(e).__name__}"}, case, repr(e))
                continue
            if not inr:
                res.violation({"site": "FilReader.read_dedisp_block", "symptom": "out-of-range request did not raise"}, case, f"start={start} ns={ns} delays={d.tolist()}")
                continue
            want = np.stack([Xf[start + d[c] : start + d[c] + ns, c] for c in range(C)])
            if b.data.shape != want.shape or not np.array_equal(b.data, want):
                res.violation({"site": "FilReader.read_dedisp_block", "symptom": "wrong values"}, case,
                              f"dm={dm} start={start} ns={ns} delays={d.tolist()} got {np.asarray(b.data)[:, :3].tolist()} want {want[:, :3].tolist()}")
            elif b.dm != dm:
                res.violation({"site": "FilReader.read_dedisp_block", "symptom": "reports a different DM"}, case, f"{b.dm} vs {dm}")
            else:
                good("read_dedisp", d)
    # ---- DM-time transform rows
    for steps in ((1, 3) if long else (1, 2, 3, 4, 5)):
        for valid in (False, True):
            for ref in ("ch1", 1300.0, 1650.0):  # the numeric ones lie below / above every band: all delays of one sign and none of them zero
                name = "dmt_valid" if valid else "dmt"
                case = ev(name, [steps, ref])
                if not case:
                    continue
                try:
                    tb = blk.dmt_transform(dm, dmsteps=steps, ref_freq=ref, only_valid_samples=valid)
                except Exception as e:  # noqa: BLE001
                    # a transform with no common valid window may refuse
                    tabs = [np.atleast_1d(np.asarray(H.get_dmdelays(float(x), ref_freq=ref))).astype(int) for x in (dm + np.linspace(-dm, dm, steps))]
                    span = max(max(0, int(t.max())) for t in tabs) - min(min(0, int(t.min())) for t in tabs)
                    if valid and span >= n and isinstance(e, ValueError):
                        res.outcome("dmt_valid/rejected_no_samples")
                    else:
                        res.violation({"site": f"FilterbankBlock.dmt_transform({'valid' if valid else 'full'})", "symptom": f"raised {type(e).__name__}", "steps>1": steps > 1},
                                      case, f"dm={dm} steps={steps}: {e!r}")
                    continue
                dms = np.asarray(tb.dms, dtype=np.float64)
                tabs = [np.atleast_1d(np.asarray(H.get_dmdelays(float(x), ref_freq=ref))).astype(int) for x in dms]
                if tb.data.shape[0] != steps:
                    res.violation({"site": "FilterbankBlock.dmt_transform", "symptom": "wrong number of rows"}, case, f"{tb.data.shape}")
                    continue
                if valid:
                    t0g = max(max(0, -int(t.min())) for t in tabs)
                    hig = max(max(0, int(t.max())) for t in tabs)
                    nv = n - hig - t0g
                    want = np.stack([sum(Xf[t0g + t[c] : t0g + t[c] + nv, c] for c in range(C)) for t in tabs]) if nv > 0 else None
                else:
                    want = np.stack([sum(np.roll(Xf[:, c], -t[c]) for c in range(C)) for t in tabs])
                if want is None or tb.data.shape != want.shape or not np.array_equal(np.asarray(tb.data, dtype=np.float64), want):
                    rows = [i for i in range(steps)] if want is None or tb.data.shape != want.shape else [i for i in range(steps) if not np.array_equal(tb.data[i], want[i])]
                    res.violation({"site": f"FilterbankBlock.dmt_transform({'valid' if valid else 'full'})", "symptom": "row differs from dedispersion at its own DM"}, case,
                                  f"dm={dm} steps={steps} ref={ref} rows {rows} (DMs {dms[rows].tolist() if rows else []}) delays {[tabs[i].tolist() for i in rows[:1]]}; "
                                  f"got shape {tb.data.shape} want {None if want is None else want.shape}")
                else:
                    good(name, np.concatenate(tabs))
    # ---- pulse restoration by every path
    if want_v is not None and want_v.shape[1] >= 3:
        case = ev("pulse", [])
        if case:
            tp = t0 + 1  # pulse time (in input samples) at the reference frequency
            P = np.zeros((n, C), dtype=np.float32)
            for c in range(C):
                P[tp + d[c], c] = 1.0
            pp = fx.make_fileset(wd, P, 32, [n], fch1=fch1, foff=foff, tsamp=tsamp, stem=f"p{band}_{dm}_{n}_")
            from sigpyproc.readers import FilReader

            pf = FilReader(pp)
            pb = pf.read_block(0, n)
            problems = []
            try:
                a = pb.dedisperse(dm).data.sum(0)
                e = np.zeros(n)
                e[tp] = C
                if not np.array_equal(a, e):
                    problems.append(("FilterbankBlock.dedisperse", a.tolist()))
                a = pb.dedisperse(dm, only_valid_samples=True).data.sum(0)
                e = np.zeros(want_v.shape[1])
                e[tp - t0] = C
                if not np.array_equal(a, e):
                    problems.append(("FilterbankBlock.dedisperse(valid)", a.tolist()))
                a = np.asarray(pf.dedisperse(dm, gulp=7, quiet=True, description="vf").data)
                if not np.array_equal(a, e):
                    problems.append(("Filterbank.dedisperse", a.tolist()))
                if tp + int(d.min()) >= 0:
                    a = pf.read_dedisp_block(tp, 2, dm).data.sum(0)
                    if not np.array_equal(a, [C, 0]):
                        problems.append(("FilReader.read_dedisp_block", a.tolist()))
                tb = pb.dmt_transform(dm, dmsteps=3)
                a = np.asarray(tb.data[1])
                e2 = np.zeros(n)
                e2[tp] = C
                if float(tb.dms[1]) != np.float32(dm) or not np.array_equal(a, e2):
                    problems.append(("FilterbankBlock.dmt_transform", a.tolist()))
            except Exception as ex:  # noqa: BLE001
                problems.append(("exception", repr(ex)))
            if problems:
                for site, got in problems[:3]:
                    res.violation({"site": site, "symptom": "synthesised pulse not restored to a single sample", "negative_delays": neg}, case,
                                  f"dm={dm} delays={d.tolist()} pulse at {tp}: {got}")
            else:
                good("pulse", d)
    res.sample({"shard": shard, "delays_ch1": d.tolist()}, cap=1)
