"""C01 - gulped reading delivers every requested sample exactly once, in order.

Engine A (lattice): depth x nchans x N x every composition of N over 1..3 files x every gulp x
every (start, nsamps) x every skipback, on real files, against the labelled array.
"""
from __future__ import annotations

import numpy as np

from vf.core import fixtures as fx

PROP = "C01"
LEVEL = "exploration"
RULE = (
    "complete enumeration of (nbits, nchans, N, file split, contiguity-check flag, gulp, start, nsamps|None, "
    "skipback) inside the bounds; a case is non-trivial when the plan has >= 2 blocks, a partial last block, a "
    "block straddling a file boundary, hits the lastread<skipback regime, or must be / is rejected; cases are "
    "distinct lattice points. A scale lane repeats the check on one stream of ordinary size (70 001 samples x 32 channels in 5 member files; "
    "gulps {16384, 4099, 65536, N, 100000} x 4 ranges x skipbacks {0, 1, 1000, gulp/2})"
)
SCALE_LANE = 'one stream of 70 001 samples x 32 channels in 5 member files (two of one sample) per depth; gulps {16384, 4099, 65536, N, 100000} x 4 ranges x skipbacks {0, 1, 1000, gulp/2}; 5 requests beyond the stream per file set'
ASSUMPTIONS = [
    "sample values are provenance labels (unique at 16/32 bit, hashed at <= 8 bit): read_plan never branches on values",
    "files are regular files on tmpfs; the OS returns no short reads",
    "input files are written by /verif's own SIGPROC encoder and bit packer (checked against the library in C03)",
]
REQUIRED_OUTCOMES = [
    "accepted/single_block",
    "accepted/multi_block",
    "accepted/partial_last",
    "accepted/crosses_file",
    "accepted/lastread_lt_skipback",
    "rejected/mandatory",
    "rejected/beyond_stream",
]


def bounds(tier: str) -> dict:
    if tier == "quick":
        return {"depths": [8, 32, 4, 1], "Nmax": 6, "max_files": 3}
    return {"depths": [8, 32, 4, 1, 2, 16], "Nmax": 9, "max_files": 3}


def shards(tier: str, seed: int) -> list:
    b = bounds(tier)
    out = []
    for nbits in b["depths"]:
        for nchans in fx.min_nchans(nbits):
            for N in range(1, b["Nmax"] + 1):
                for lengths in fx.compositions(N, b["max_files"]):
                    out.append({"nbits": nbits, "nchans": nchans, "N": N, "lengths": list(lengths), "contig": True})
                # the same stream opened without the contiguity check (one split per N)
                if N >= 2:
                    out.append({"nbits": nbits, "nchans": nchans, "N": N, "lengths": [1, N - 1], "contig": False})
    # scale lane: a stream of ordinary size (more than 2**16 samples, 32 channels, 5 member files, two of them one sample long)
    for nbits in ((8, 32, 2) if tier == "quick" else (8, 32, 4, 2, 1, 16)):
        out.append({"nbits": nbits, "nchans": 32, "N": 70001, "lengths": [16384, 1, 30000, 23615, 1], "contig": True, "scale": True})
    return out


def scale_cases(N: int):
    for g in (16384, 4099, 65536, N, 100000):
        for start, ns in ((0, None), (12345, 50000), (65530, None), (16384, 30001)):
            n_eff = (N - start) if ns is None else ns
            for s in sorted({0, 1, 1000, min(g, n_eff) // 2}):
                if s < min(g, n_eff):
                    yield [g, start, ns, s]


def inner_cases(N: int):
    for g in range(1, N + 3):
        for start in range(N):
            for ns in [*range(1, N - start + 1), None]:
                n_eff = (N - start) if ns is None else ns
                for s in range(min(g, n_eff) + 2):
                    yield [g, start, ns, s]


def run_shard(shard: dict, ctx, res, only=None) -> None:
    from sigpyproc.readers import FilReader

    nbits, C, N = shard["nbits"], shard["nchans"], shard["N"]
    X = fx.label_data(N, C, nbits, ctx.seed)
    wd = ctx.workdir("c01")
    paths = fx.make_fileset(wd, X, nbits, shard["lengths"])
    bounds_ = np.cumsum(shard["lengths"])[:-1]
    try:
        fil = FilReader(paths, check_contiguity=shard["contig"])
    except Exception as e:  # noqa: BLE001
        res.evaluations += 1
        res.violation(
            {"site": "FilReader.__init__", "symptom": f"raised {type(e).__name__}"},
            {"shard": shard, "inner": None},
            repr(e),
        )
        return
    if fil.header.nsamples != N:
        res.violation(
            {"site": "FilReader.header", "symptom": "wrong nsamples"},
            {"shard": shard, "inner": None},
            f"header.nsamples={fil.header.nsamples} expected {N}",
        )
        return
    cases = [only] if (only is not None and len(only) == 4) else [] if only is not None else scale_cases(N) if shard.get("scale") else inner_cases(N)
    for inner in cases:
        if inner is None:
            continue
        g, start, ns, s = inner
        res.evaluations += 1
        _one(fil, X, C, N, bounds_, shard, g, start, ns, s, res)
    # the custom allocator argument: the blocks must not depend on which buffer type backs them
    if only is None or (len(only) == 5 and only[4] not in ("beyond", "defaults")):
        allocs = {"numpy": lambda n: np.zeros(n, dtype=np.uint8), "memoryview": lambda n: memoryview(bytearray(n))}
        for g, start, ns, s in [(2, 0, None, 1), (3, 1, N - 1 if N > 1 else None, 0), (N + 1, 0, None, 0)]:
            if only is not None and [g, start, ns, s] != only[:4]:
                continue
            if start >= N or (ns is not None and ns < 1):
                continue
            n_eff = (N - start) if ns is None else ns
            if s >= min(g, n_eff):
                continue
            for aname, alloc in allocs.items():
                res.evaluations += 1
                if only is not None and only[4] != aname:
                    continue
                case = {"shard": shard, "inner": [g, start, ns, s, aname]}
                try:
                    pieces = []
                    for k, (nr, ii, data) in enumerate(fil.read_plan(gulp=g, start=start, nsamps=ns, skipback=s, description="vf", quiet=True, allocator=alloc)):
                        blk = np.array(data, copy=True).reshape(nr, C)
                        pieces.append(blk if k == 0 else blk[s:])
                    got = np.concatenate(pieces)
                    if got.shape != (n_eff, C) or not np.array_equal(got.astype(np.float64), X[start : start + n_eff].astype(np.float64)):
                        res.violation({"site": "FilReader.read_plan", "symptom": "wrong samples delivered with a custom allocator", "allocator": aname}, case, f"allocator {aname}")
                    else:
                        res.outcome("accepted/custom_allocator")
                except Exception as e:  # noqa: BLE001
                    res.violation({"site": "FilReader.read_plan", "symptom": f"raised {type(e).__name__} with a custom allocator", "allocator": aname}, case, repr(e))
    # every argument left at its default: the whole stream, from sample 0, no overlap
    if only is None or (len(only) == 5 and only[4] == "defaults"):
        res.evaluations += 1
        case = {"shard": shard, "inner": [0, 0, None, 0, "defaults"]}
        try:
            got = np.concatenate([np.array(d, copy=True).reshape(nr, C) for nr, _ii, d in fil.read_plan(quiet=True)])
            if got.shape != X.shape or not np.array_equal(got.astype(np.float64), X.astype(np.float64)):
                res.violation({"site": "FilReader.read_plan", "symptom": "wrong samples delivered with all arguments at their defaults"}, case, f"got {got.shape[0]} samples, want {N}")
            else:
                res.outcome("accepted/defaults")
        except Exception as e:  # noqa: BLE001
            res.violation({"site": "FilReader.read_plan", "symptom": f"raised {type(e).__name__} with all arguments at their defaults"}, case, repr(e))
    # requests that reach beyond the stream (outside the quantifier for WHEN they are refused, but inside "no accepted plan ever yields a missing
    # sample"): iterating such a plan to the end without an exception means fewer samples were delivered than asked for
    if only is None or (len(only) == 5 and only[4] == "beyond"):
        for g, start, ns in [(2, max(0, N - 1), 2), (N + 3, 0, N + 1), (1, 0, N + 2), (3, N // 2, N), (2, N, 1)]:
            if (only is not None and [g, start, ns] != only[:3]) or start + ns <= N:
                continue
            res.evaluations += 1
            case = {"shard": shard, "inner": [g, start, ns, 0, "beyond"]}
            got = 0
            try:
                for nr, _ii, _data in fil.read_plan(gulp=g, start=start, nsamps=ns, description="vf", quiet=True):
                    got += int(nr)
            except Exception:  # noqa: BLE001, S110 - refusing (now or later) is the allowed answer
                res.outcome("rejected/beyond_stream")
                continue
            res.violation({"site": "FilReader.read_plan", "symptom": "a request reaching beyond the stream ran to completion without an exception"}, case,
                          f"N={N} start={start} nsamps={ns} gulp={g}: {got} samples delivered")
    res.sample({"shard": shard, "inner": [2, 0, None, 1]})


def _one(fil, X, C, N, fbounds, shard, g, start, ns, s, res) -> None:
    case = {"shard": shard, "inner": [g, start, ns, s]}
    n_eff = (N - start) if ns is None else ns
    g_eff = min(g, n_eff)
    must_reject = s >= g_eff
    must_accept = 2 * s <= g_eff
    blocks = []
    yielded = 0
    try:
        it = fil.read_plan(gulp=g, start=start, nsamps=ns, skipback=s, description="vf", quiet=True)
        for nsamps_r, ii, data in it:
            yielded += 1
            blocks.append((int(nsamps_r), int(ii), np.array(data, copy=True)))
    except ValueError as e:
        if yielded == 0:
            if must_accept:
                res.violation(
                    {"site": "FilReader.read_plan", "symptom": "rejected a plan with 2*skipback <= gulp"},
                    case,
                    repr(e),
                )
            else:
                res.outcome("rejected/mandatory" if must_reject else "rejected/optional")
                res.nontrivial += 1
            return
        res.violation(
            {"site": "FilReader.read_plan", "symptom": "ValueError after yielding", "must_accept": must_accept},
            case,
            f"after {yielded} blocks: {e!r}",
        )
        return
    except Exception as e:  # noqa: BLE001
        res.violation(
            {"site": "FilReader.read_plan", "symptom": f"raised {type(e).__name__}", "yielded": yielded > 0},
            case,
            repr(e),
        )
        return
    if must_reject:
        res.violation(
            {"site": "FilReader.read_plan", "symptom": "accepted a plan with skipback >= effective gulp"},
            case,
            f"{len(blocks)} blocks yielded",
        )
        return
    # ---- accepted plan: structural checks ----
    want = X[start : start + n_eff]
    pieces = []
    prev = None
    crosses = False
    pos = start
    for k, (nr, ii, data) in enumerate(blocks):
        if data.ndim != 1 or data.size % C != 0:
            return res.violation(
                {"site": "FilReader.read_plan", "symptom": "block is not a whole number of samples"},
                case,
                f"block {k}: size={data.size} nchans={C}",
            )
        nb = data.size // C
        if nb < 1 or nb > g:
            return res.violation(
                {"site": "FilReader.read_plan", "symptom": "block size outside 1..gulp"},
                case,
                f"block {k}: {nb} samples, gulp={g}",
            )
        if nr != nb:
            return res.violation(
                {"site": "FilReader.read_plan", "symptom": "reported sample count != array length / nchans"},
                case,
                f"block {k}: reported {nr}, array holds {nb}",
            )
        if ii != k:
            return res.violation(
                {"site": "FilReader.read_plan", "symptom": "block index is not 0,1,2,..."},
                case,
                f"block {k}: index {ii}",
            )
        blk = data.reshape(nb, C)
        if k == 0:
            pieces.append(blk)
            lo = pos
            pos += nb
        else:
            if nb < s:
                return res.violation(
                    {"site": "FilReader.read_plan", "symptom": "block shorter than skipback"},
                    case,
                    f"block {k}: {nb} samples < skipback {s}",
                )
            if s and not np.array_equal(blk[:s], prev[prev.shape[0] - s :]):
                return res.violation(
                    {"site": "FilReader.read_plan", "symptom": "leading skipback samples do not repeat previous tail"},
                    case,
                    f"block {k}: head={blk[:s][:8].tolist()} prev tail={prev[prev.shape[0]-s:][:8].tolist()}",
                )
            pieces.append(blk[s:])
            lo = pos - s
            pos += nb - s
        hi = lo + nb
        if any(lo < b < hi for b in fbounds):
            crosses = True
        prev = blk
    got = np.concatenate(pieces) if pieces else np.zeros((0, C), dtype=X.dtype)
    if got.shape != want.shape or not np.array_equal(got.astype(np.float64), want.astype(np.float64)):
        sym = "wrong samples delivered"
        if got.shape[0] < want.shape[0]:
            sym = "missing samples"
        elif got.shape[0] > want.shape[0]:
            sym = "too many samples"
        return res.violation(
            {"site": "FilReader.read_plan", "symptom": sym},
            case,
            f"want {want.shape[0]} samples {want[:64, 0].tolist()} (ch0), got {got.shape[0]} samples {got[:64, 0].tolist()} (ch0)"
            + (f"; first difference at sample {int(np.flatnonzero((got[: min(len(got), len(want))] != want[: min(len(got), len(want))]).any(1))[0]) if (got[: min(len(got), len(want))] != want[: min(len(got), len(want))]).any() else min(len(got), len(want))}"),
        )
    if blocks and blocks[0][2].dtype != X.dtype:
        return res.violation(
            {"site": "FilReader.read_plan", "symptom": "unexpected dtype"},
            case,
            f"{blocks[0][2].dtype} vs {X.dtype}",
        )
    # ---- classify ----
    nontriv = False
    if len(blocks) == 1:
        res.outcome("accepted/single_block")
    else:
        res.outcome("accepted/multi_block")
        nontriv = True
        if blocks[-1][0] != blocks[0][0]:
            res.outcome("accepted/partial_last")
    if crosses:
        res.outcome("accepted/crosses_file")
        nontriv = True
    if s and n_eff % (g_eff - s) < s:
        res.outcome("accepted/lastread_lt_skipback")
        nontriv = True
    if not must_accept:
        res.outcome("accepted/optional")
    if start + n_eff < N and len(blocks) > 1 and blocks[-1][0] != blocks[0][0]:
        res.outcome("accepted/partial_last_before_eof")
    if nontriv:
        res.nontrivial += 1
