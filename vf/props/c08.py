"""C08 - output metadata describes the output data.

Engine A: every API that returns a container or writes a file x 5 channelisations x 2 sampling
times x sub-ranges/selections; header of the product vs. the data it carries.
"""
from __future__ import annotations

import os

import numpy as np

from vf.core import fixtures as fx

PROP = "C08"
LEVEL = "exploration"
RULE = (
    "every (API, parameters) cell x channelisation (fch1,foff) in {(1500,-4),(1500.05,-0.1),(1400,-1/3),(1200,+0.1),(1000.3,+1/3)} x "
    "tsamp in {1e-3, 64e-6} x input depth {8,32}: APIs = collapse, dedisperse, read_chan(every c), read_block (every sub-range; every "
    "(first channel k, nchans m) selection requested by float32 label and by float64 value), read_dedisp_block, invert_freq, "
    "apply_channel_mask, downsample (tfactor x ffactor), extract_samps, extract_chans, extract_bands, subband (nsub x DM), remove_zerodm "
    "requantize (each with start in {0,3}), FilterbankBlock.downsample/dedisperse/get_tim/dmt_transform/to_file/normalise/pad_samples, "
    "TimeSeries.downsample/pad/normalise/apply_boxcar/deredden/resample/correlate. "
    "Checked: nsamples/nchans = data shape, nbits = on-disk width, tsamp x tfactor, tstart + start*tsamp (5 us), dm applied, channel "
    "labels (copies within 1e-3|foff|, sums inside the span of their members, spacing foff x factor), rows returned for a label "
    "request. Non-trivial = start>0, or a channel selection/combination, or a non-dyadic foff"
)
SCALE_LANE = 'none (metadata arithmetic does not depend on sizes); batch sizes smaller than the number of outputs are in the parameter domain'
ASSUMPTIONS = [
    "for FilterbankBlock products the applied DM is read from block.dm (the container's own field), as DESIGN.md records",
    "bandpass() (channels as 'samples') and fold() are not time-domain products and are left out",
    "spacing is only asserted for outputs with more than one channel",
]
REQUIRED_OUTCOMES = ["container/ok", "file/ok", "read_block_selection/ok"]

CHANS = [(1500.0, -4.0), (1500.05, -0.1), (1400.0, -1 / 3), (1200.0, 0.1), (1000.3, 1 / 3)]
TSAMPS = [1e-3, 64e-6, 1e-5]  # the third only in thorough
N, C = 12, 8


def bounds(tier: str) -> dict:
    return {"channelisations": CHANS, "tsamps": TSAMPS, "N": N, "C": C, "depths": [8, 32] if tier == "thorough" else [8, 32]}


def shards(tier: str, seed: int) -> list:
    out = []
    for ci in range(len(CHANS)):
        for ti in range(len(TSAMPS) if tier == "thorough" else 2):
            for nbits in (8, 32):
                for group in ("containers", "files", "read_block", "blocks"):
                    if group in ("read_block", "blocks") and nbits == 8:
                        continue
                    out.append({"chan": ci, "tsamp": ti, "nbits": nbits, "group": group, "starts": [0, 3] if tier == "quick" else [0, 1, 3, 7]})
    return out


class _Chk:
    def __init__(self, H, res, shard):
        self.H, self.res, self.shard = H, res, shard
        self.infreq = H.fch1 + np.arange(H.nchans, dtype=np.float64) * H.foff

    def check(self, api, params, O, *, shape, src, start=0, tfactor=1, dm=None, dm_field=None, ondisk_nbits=None,
              file_nbits=None, kind="container"):
        """O: output Header; shape = (nsamples, nchans) of the data; src = per output channel, list of input channels."""
        H, res = self.H, self.res
        res.evaluations += 1
        case = {"shard": self.shard, "inner": [api, params]}
        site = api
        bad = []
        ns, nc = shape
        if O.nsamples != ns:
            bad.append(("nsamples", f"header {O.nsamples} vs data {ns}"))
        if nc is not None and O.nchans != nc:
            bad.append(("nchans", f"header {O.nchans} vs data {nc}"))
        if file_nbits is not None and O.nbits != file_nbits:
            bad.append(("nbits", f"header {O.nbits} vs on-disk {file_nbits}"))
        if not (abs(O.tsamp - H.tsamp * tfactor) <= 1e-12 * H.tsamp * tfactor):
            bad.append(("tsamp", f"{O.tsamp!r} vs {H.tsamp * tfactor!r}"))
        dt = (O.tstart - H.tstart) * 86400.0 - start * H.tsamp
        if not (abs(dt) <= 5e-6):
            bad.append(("tstart", f"output tstart is off by {dt:.3e} s for start={start}"))
        if dm is not None:
            got = dm_field if dm_field is not None else O.dm
            if not (abs(got - dm) <= 1e-9 * max(1.0, abs(dm))):
                bad.append(("dm", f"records {got!r}, applied {dm!r}"))
        if src is not None:
            of = np.asarray(O.chan_freqs, dtype=np.float64)
            # labels are float32 (Header.chan_freqs): allow their rounding on top of 1e-3 channel widths
            tol = 1e-3 * abs(H.foff) + 4 * float(np.finfo(np.float32).eps) * float(np.max(np.abs(self.infreq)))
            for i, members in enumerate(src):
                f = self.infreq[members]
                if len(members) == 1:
                    if not (abs(of[i] - f[0]) <= tol):
                        bad.append(("chan_label", f"output channel {i} labelled {of[i]!r}, copied from input channel {members[0]} at {f[0]!r}"))
                        break
                elif not (f.min() - tol <= of[i] <= f.max() + tol):
                    bad.append(("chan_label", f"output channel {i} labelled {of[i]!r}, outside the span [{f.min()!r},{f.max()!r}] of its members"))
                    break
            if len(src) > 1:
                fac = len(src[0]) if all(len(m) == len(src[0]) for m in src) else None
                if fac is not None:
                    step = self.infreq[src[1][0]] - self.infreq[src[0][0]]
                    if not (abs(O.foff - step) <= tol * max(1, fac)):
                        bad.append(("foff", f"header foff {O.foff!r}, actual spacing of the output channels {step!r}"))
        if bad:
            for field, msg in bad[:2]:
                res.violation({"site": site, "symptom": f"header {field} inconsistent with the data"}, case, f"params={params}: {msg}")
            return False
        res.outcome(f"{kind}/ok")
        if start > 0 or (src is not None and src != [[c] for c in range(len(src))]) or abs(H.foff * 8 - round(H.foff * 8)) > 1e-9:
            res.nontrivial += 1
        return True


def run_shard(shard: dict, ctx, res, only=None) -> None:
    from sigpyproc.header import Header
    from sigpyproc.readers import FilReader
    from sigpyproc.timeseries import TimeSeries

    import sigpyproc.readers as _rd

    _rd.track = lambda it, **k: it  # progress bar only (read_dedisp_block has no quiet switch)
    wd = ctx.workdir("c08")
    fch1, foff = CHANS[shard["chan"]]
    tsamp = TSAMPS[shard["tsamp"]]
    nbits = shard["nbits"]
    X = fx.label_data(N, C, nbits, ctx.seed)
    # every other channelisation: the input itself carries a non-zero reference DM (products made at DM 0 must still say 0)
    paths = fx.make_fileset(wd, X, nbits, [N], fch1=fch1, foff=foff, tsamp=tsamp, tstart=58000.25, extra=[("refdm", 56.75)] if shard["chan"] % 2 else None)
    fil = FilReader(paths)
    H = fil.header
    chk = _Chk(H, res, shard)
    allc = [[c] for c in range(C)]
    kw = {"gulp": 5, "quiet": True, "description": "vf"}
    dm_pos = 2.0 if foff < 0 else -2.0  # sign chosen so that all delays are >= 0 for either band direction

    def guard(api, params, fn):
        # replay: re-run every cell of the same API in this shard (cells are cheap; their parameters are reported by the check itself)
        if only is not None and api != only[0]:
            return
        try:
            fn()
        except Exception as e:  # noqa: BLE001
            res.evaluations += 1
            res.violation({"site": api, "symptom": f"raised {type(e).__name__}"}, {"shard": shard, "inner": [api, params]}, f"params={params}: {e!r}")

    def hdr_of(path):
        h = Header.from_sigproc(path)
        hl = h.stream_info.entries[0].hdrlen
        return h, os.path.getsize(path) - hl

    g = shard["group"]
    if g == "containers":
        for start, ns in [(0, None), (3, 5), (1, None), (0, 7)]:
            n_eff = (N - start) if ns is None else ns
            rk = dict(kw, start=start)
            if ns is not None:
                rk["nsamps"] = ns

            def f_collapse(start=start, rk=rk, n_eff=n_eff):
                ts = fil.collapse(**rk)
                chk.check("Filterbank.collapse", [start, n_eff], ts.header, shape=(ts.data.size, 1), src=[list(range(C))], start=start, dm=0.0)

            guard("Filterbank.collapse", [start, n_eff], f_collapse)

            for dmv in (dm_pos, 0.0):
                def f_dd(start=start, rk=rk, n_eff=n_eff, dmv=dmv):
                    d = np.asarray(H.get_dmdelays(dmv))
                    if d.min() < 0 or d.max() >= n_eff:
                        return
                    ts = fil.dedisperse(dmv, **rk)
                    chk.check("Filterbank.dedisperse", [start, n_eff, dmv], ts.header, shape=(ts.data.size, 1), src=[list(range(C))], start=start, dm=dmv)

                guard("Filterbank.dedisperse", [start, n_eff, dmv], f_dd)
            def f_ddn(start=start, rk=rk, n_eff=n_eff):
                # opposite DM sign: all delays <= 0, the series starts -min(delay) samples after `start` (time measured at the first channel)
                d = np.asarray(H.get_dmdelays(-dm_pos))
                if d.max() > 0 or -int(d.min()) >= n_eff:
                    return
                ts = fil.dedisperse(-dm_pos, **rk)
                chk.check("Filterbank.dedisperse(negative delays)", [start, n_eff], ts.header, shape=(ts.data.size, 1), src=[list(range(C))],
                          start=start - int(d.min()), dm=-dm_pos)

            guard("Filterbank.dedisperse(negative delays)", [start, n_eff], f_ddn)
            for c in range(C):
                def f_rc(c=c, start=start, rk=rk, n_eff=n_eff):
                    ts = fil.read_chan(c, **rk)
                    chk.check("Filterbank.read_chan", [c, start, n_eff], ts.header, shape=(ts.data.size, 1), src=[[c]], start=start, dm=0.0)

                guard("Filterbank.read_chan", [c, start, n_eff], f_rc)

            def f_rdb(start=start, n_eff=n_eff):
                d = np.asarray(H.get_dmdelays(dm_pos))
                n_ok = min(n_eff, N - start - int(d.max()))
                if d.min() < 0 or n_ok < 1:
                    return
                b = fil.read_dedisp_block(start, n_ok, dm_pos)
                chk.check("FilReader.read_dedisp_block", [start, n_ok], b.header, shape=(b.data.shape[1], b.data.shape[0]), src=allc, start=start,
                          dm=dm_pos, dm_field=b.dm)

            guard("FilReader.read_dedisp_block", [start, n_eff], f_rdb)

            def f_rdbn(start=start, n_eff=n_eff):
                # opposite DM sign: delays <= 0, the rows read start before `start`
                d = np.asarray(H.get_dmdelays(-dm_pos))
                s2 = max(start, -int(d.min()))
                n_ok = min(n_eff, N - s2)
                if d.max() > 0 or n_ok < 1:
                    return
                b = fil.read_dedisp_block(s2, n_ok, -dm_pos)
                chk.check("FilReader.read_dedisp_block(negative delays)", [s2, n_ok], b.header, shape=(b.data.shape[1], b.data.shape[0]), src=allc, start=s2,
                          dm=-dm_pos, dm_field=b.dm)

            guard("FilReader.read_dedisp_block(negative delays)", [start, n_eff], f_rdbn)
        # TimeSeries products
        ts0 = fil.collapse(**kw)
        for fac in (1, 2, 3, 5):
            def f_tsd(fac=fac):
                t = ts0.downsample(fac)
                chk.check("TimeSeries.downsample", [fac], t.header, shape=(t.data.size, 1), src=None, tfactor=fac)

            guard("TimeSeries.downsample", [fac], f_tsd)
        for npad in (0, 1, 7):
            def f_pad(npad=npad):
                t = ts0.pad(npad)
                chk.check("TimeSeries.pad", [npad], t.header, shape=(t.data.size, 1), src=None)

            guard("TimeSeries.pad", [npad], f_pad)
    elif g == "read_block":
        for start in range(N):
            for ns in range(1, N - start + 1):
                def f_rb(start=start, ns=ns):
                    b = fil.read_block(start, ns)
                    chk.check("FilReader.read_block", [start, ns], b.header, shape=(b.data.shape[1], b.data.shape[0]), src=allc, start=start)

                guard("FilReader.read_block", [start, ns], f_rb)
        f32 = np.asarray(H.chan_freqs)
        for k in range(C):
            for m in range(1, C - k + 1):
                for how, val in (("label32", float(f32[k])), ("value64", fch1 + k * foff)):
                    def f_sel(k=k, m=m, how=how, val=val):
                        b = fil.read_block(2, 4, fch1=val, nchans=m)
                        want = X[2:6, k : k + m].T.astype(np.float32)
                        ok = chk.check("FilReader.read_block(fch1,nchans)", [k, m, how], b.header, shape=(b.data.shape[1], b.data.shape[0]),
                                       src=[[c] for c in range(k, k + m)], start=2, kind="read_block_selection")
                        if ok and (b.data.shape != want.shape or not np.array_equal(b.data, want)):
                            res.violation({"site": "FilReader.read_block(fch1,nchans)", "symptom": "rows returned do not match the requested labels"},
                                          {"shard": shard, "inner": ["FilReader.read_block(fch1,nchans)", [k, m, how]]},
                                          f"requested fch1={val!r} (channel {k}), nchans={m}: got rows starting with {np.asarray(b.data)[:, 0].tolist()} want {want[:, 0].tolist()}")

                    guard("FilReader.read_block(fch1,nchans)", [k, m, how], f_sel)
        # selections that do not fit the band: refusing is fine; if one is accepted, the header must still describe the rows that were returned
        for k in range(C):
            for m in (C - k + 1, C - k + 3, C + 1):
                if only is not None and only[0] != "FilReader.read_block(selection beyond the band)":
                    continue
                try:
                    b = fil.read_block(2, 4, fch1=float(f32[k]), nchans=m)
                except Exception:  # noqa: BLE001
                    res.outcome("read_block_selection/beyond_band_refused")
                    continue
                rows = b.data.shape[0]
                chk.check("FilReader.read_block(selection beyond the band)", [k, m], b.header, shape=(b.data.shape[1], rows),
                          src=[[c] for c in range(k, min(C, k + rows))] if k + rows <= C else None, start=2, kind="read_block_selection")
    elif g == "blocks":
        blk = fil.read_block(1, 10)
        Hb = blk.header
        cb = _Chk(Hb, res, shard)
        for ff, tf in [(1, 1), (2, 1), (1, 2), (4, 3), (8, 5), (2, 10), (3, 1), (5, 4)]:
            def f_bd(ff=ff, tf=tf):
                b = blk.downsample(ffactor=ff, tfactor=tf)
                src = [list(range(i * ff, (i + 1) * ff)) for i in range(C // ff)]
                cb.check("FilterbankBlock.downsample", [ff, tf], b.header, shape=(b.data.shape[1], b.data.shape[0]), src=src, tfactor=tf)

            guard("FilterbankBlock.downsample", [ff, tf], f_bd)
        for valid, dmv in [(v_, d_) for v_ in (False, True) for d_ in (dm_pos, 0.0)]:
            def f_bdd(valid=valid, dmv=dmv):
                d = np.asarray(Hb.get_dmdelays(dmv))
                if valid and d.max() - min(0, d.min()) >= 10:
                    return
                b = blk.dedisperse(dmv, only_valid_samples=valid)
                cb.check("FilterbankBlock.dedisperse", [valid, dmv], b.header, shape=(b.data.shape[1], b.data.shape[0]), src=allc, dm=dmv, dm_field=b.dm)
                t = b.get_tim()
                cb.check("FilterbankBlock.get_tim", [valid, dmv], t.header, shape=(t.data.size, 1), src=[list(range(C))], dm=dmv)

            guard("FilterbankBlock.dedisperse", [valid, dmv], f_bdd)

        def f_dmt():
            b = blk.dmt_transform(2.0, dmsteps=4)
            cb.check("FilterbankBlock.dmt_transform", [], b.header, shape=(b.data.shape[1], None), src=None)

        guard("FilterbankBlock.dmt_transform", [], f_dmt)

        def f_tofile():
            out = str(wd / "blk.fil")
            blk.to_file(out)
            h, nbytes = hdr_of(out)
            cb.check("FilterbankBlock.to_file", [], h, shape=(nbytes * 8 // (32 * C), C), src=allc, file_nbits=32, kind="file")

        guard("FilterbankBlock.to_file", [], f_tofile)

        # further derived containers: the header must keep describing the data (shape, tsamp, labels)
        def f_norm():
            b = blk.normalise()
            cb.check("FilterbankBlock.normalise", [], b.header, shape=(b.data.shape[1], b.data.shape[0]), src=allc)

        guard("FilterbankBlock.normalise", [], f_norm)
        for nfin, off in ((14, 0), (14, 3), (10, 0)):
            def f_padb(nfin=nfin, off=off):
                b = blk.pad_samples(nfin, off)
                cb.check("FilterbankBlock.pad_samples", [nfin, off], b.header, shape=(b.data.shape[1], b.data.shape[0]), src=allc)

            guard("FilterbankBlock.pad_samples", [nfin, off], f_padb)
        tsb = blk.get_tim()

        def f_tsn():
            t = tsb.normalise()
            cb.check("TimeSeries.normalise", [], t.header, shape=(t.data.size, 1), src=None)

        guard("TimeSeries.normalise", [], f_tsn)
        for w in (1, 2, 3):
            def f_box(w=w):
                t = tsb.apply_boxcar(w)
                cb.check("TimeSeries.apply_boxcar", [w], t.header, shape=(t.data.size, 1), src=None)

            guard("TimeSeries.apply_boxcar", [w], f_box)

        def f_dered():
            t = tsb.deredden(window=3 * Hb.tsamp)
            cb.check("TimeSeries.deredden", [], t.header, shape=(t.data.size, 1), src=None)

        guard("TimeSeries.deredden", [], f_dered)
        for acc in (0.0, 5.0, -5.0):
            def f_res(acc=acc):
                t = tsb.resample(acc)
                cb.check("TimeSeries.resample", [acc], t.header, shape=(t.data.size, 1), src=None)

            guard("TimeSeries.resample", [acc], f_res)

        def f_corr():
            t = tsb.correlate(np.ones(3, dtype=np.float32))
            cb.check("TimeSeries.correlate", [], t.header, shape=(t.data.size, 1), src=None)

        guard("TimeSeries.correlate", [], f_corr)
    elif g == "files":
        for start in shard.get("starts", [0, 3]):
            n_eff = N - start
            rk = dict(kw, start=start)
            out = str(wd / "o.fil")

            def disk_nbits(nbytes, ns, nc):
                return nbytes * 8 // max(1, ns * nc)

            def f_inv(start=start, rk=rk, n_eff=n_eff):
                fil.invert_freq(outfile_name=out, **rk)
                h, nb = hdr_of(out)
                chk.check("Filterbank.invert_freq", [start], h, shape=(n_eff, C), src=[[C - 1 - c] for c in range(C)], start=start,
                          file_nbits=disk_nbits(nb, n_eff, C), kind="file")

            guard("Filterbank.invert_freq", [start], f_inv)

            def f_mask(start=start, rk=rk, n_eff=n_eff):
                fil.apply_channel_mask(np.array([0, 1] * (C // 2)), 0, outfile_name=out, **rk)
                h, nb = hdr_of(out)
                chk.check("Filterbank.apply_channel_mask", [start], h, shape=(n_eff, C), src=allc, start=start, file_nbits=disk_nbits(nb, n_eff, C), kind="file")

            guard("Filterbank.apply_channel_mask", [start], f_mask)
            for tf, ff in [(1, 1), (2, 1), (1, 2), (3, 4), (4, 8)]:
                def f_ds(tf=tf, ff=ff, start=start, rk=rk, n_eff=n_eff):
                    fil.downsample(tfactor=tf, ffactor=ff, outfile_name=out, **rk)
                    h, nb = hdr_of(out)
                    ns_o, nc_o = n_eff // tf, C // ff
                    src = [list(range(i * ff, (i + 1) * ff)) for i in range(nc_o)]
                    chk.check("Filterbank.downsample", [tf, ff, start], h, shape=(ns_o, nc_o), src=src, start=start, tfactor=tf,
                              file_nbits=disk_nbits(nb, ns_o, nc_o), kind="file")

                guard("Filterbank.downsample", [tf, ff, start], f_ds)

            def f_es(start=start, n_eff=n_eff):
                fil.extract_samps(start, n_eff - 2, outfile_name=out, **kw)
                h, nb = hdr_of(out)
                chk.check("Filterbank.extract_samps", [start], h, shape=(n_eff - 2, C), src=allc, start=start, file_nbits=disk_nbits(nb, n_eff - 2, C), kind="file")

            guard("Filterbank.extract_samps", [start], f_es)

            def f_ec(start=start, rk=rk, n_eff=n_eff):
                chans = [0, 3, C - 1]
                names = fil.extract_chans(np.array(chans), outfile_base=str(wd / "ec"), batch_size=2, **rk)
                for c, nm in zip(chans, names):
                    h, nb = hdr_of(nm)
                    chk.check("Filterbank.extract_chans", [c, start], h, shape=(n_eff, 1), src=[[c]], start=start, file_nbits=disk_nbits(nb, n_eff, 1), kind="file")

            guard("Filterbank.extract_chans", [start], f_ec)
            for cs, nch, cps, bsz in [(0, 8, 4, 200), (2, 4, 2, 200), (1, 6, 3, 200), (4, 4, 4, 200), (0, 8, 2, 1), (0, 8, 2, 3), (2, 6, 2, 2)]:
                def f_eb(cs=cs, nch=nch, cps=cps, bsz=bsz, start=start, rk=rk, n_eff=n_eff):
                    names = fil.extract_bands(cs, nch, cps, outfile_base=str(wd / "eb"), batch_size=bsz, **rk)
                    for i, nm in enumerate(names):
                        h, nb = hdr_of(nm)
                        chk.check("Filterbank.extract_bands", [cs, nch, cps, bsz, start], h, shape=(n_eff, cps),
                                  src=[[c] for c in range(cs + i * cps, cs + (i + 1) * cps)], start=start,
                                  file_nbits=disk_nbits(nb, n_eff, cps), kind="file")

                guard("Filterbank.extract_bands", [cs, nch, cps, bsz, start], f_eb)
            for nsub, dmv in [(n_, d_) for n_ in (1, 2, 4, 8) for d_ in (dm_pos, 0.0, -dm_pos)]:
                def f_sb(nsub=nsub, start=start, rk=rk, n_eff=n_eff, dmv=dmv):
                    d = np.asarray(H.get_dmdelays(dmv))
                    span = int(d.max()) - int(d.min())
                    if (d.min() < 0 and d.max() > 0) or span >= n_eff:
                        return
                    fil.subband(dmv, nsub, outfile_name=out, **rk)
                    h, nb = hdr_of(out)
                    sf = C // nsub
                    ns_o = n_eff - span
                    # negative delays: the product starts -min(delay) samples after `start` (time measured at the first channel)
                    chk.check("Filterbank.subband", [nsub, start, dmv], h, shape=(ns_o, nsub), src=[list(range(i * sf, (i + 1) * sf)) for i in range(nsub)],
                              start=start - min(0, int(d.min())), dm=dmv, file_nbits=disk_nbits(nb, ns_o, nsub), kind="file")

                guard("Filterbank.subband", [nsub, start, dmv], f_sb)

            def f_zdm(start=start, rk=rk, n_eff=n_eff):
                fil.remove_zerodm(outfile_name=out, **rk)
                h, nb = hdr_of(out)
                chk.check("Filterbank.remove_zerodm", [start], h, shape=(n_eff, C), src=allc, start=start, file_nbits=disk_nbits(nb, n_eff, C), kind="file")

            guard("Filterbank.remove_zerodm", [start], f_zdm)
            for nbo in (8, 32, 16):
                def f_rq(nbo=nbo, start=start, rk=rk, n_eff=n_eff):
                    fil.requantize(nbo, outfile_name=out, **rk)
                    h, nb = hdr_of(out)
                    chk.check("Filterbank.requantize", [nbo, start], h, shape=(n_eff, C), src=allc, start=start, file_nbits=disk_nbits(nb, n_eff, C), kind="file")

                guard("Filterbank.requantize", [nbo, start], f_rq)
    res.sample({"shard": shard, "example": ["FilReader.read_block(fch1,nchans)", [3, 2, "label32"]]}, cap=1)
