"""C18 - PSRFITS reads are position-independent and agree with the SIGPROC path.

Engine A on synthesised search-mode PSRFITS files: layout x depth x NSBLK x sub-integrations x
channel order; every (start, nsamps), every gulp, reductions vs the SIGPROC path, header types.
"""
from __future__ import annotations

import numpy as np

from vf.core import fixtures as fx
from vf.core import psrfits

PROP = "C18"
LEVEL = "exploration"
RULE = (
    "synthesised files: layout in {coherence 4-pol, stokes 4-pol, intensity 1-pol, PPQQ 2-pol} x nbits {8,4} x NSBLK {3,4,5} (8-bit) / {4,6} "
    "(4-bit) x 2..4 sub-integrations x channel order {descending, ascending}, with non-trivial DAT_SCL/DAT_OFFS/DAT_WTS/ZERO_OFF. A file is in "
    "scope iff the whole-file read_block(0,N) succeeds. Then: whole read == independent decode; every (start,nsamps) == columns of the whole "
    "read (out-of-range must raise); read_plan for every gulp 1..N+2 x every sub-range x skipback {0, <= gulp/2} delivers [start,start+nsamps) "
    "exactly once; collapse/bandpass/read_chan/dedisperse/compute_stats for several gulps == the same on a 32-bit .fil written from the whole "
    "read; header quantities are plain int/float in MHz/s/MJD; two files of 150 sub-integrations (300 thorough) with reduced request sets. Non-trivial = request not aligned to sub-integration boundaries or > 1 block"
)
SCALE_LANE = 'two files of 150 (thorough 300) sub-integrations with row-varying scales, offsets and weights; reduced request sets'
ASSUMPTIONS = [
    "files are synthesised with astropy.io.fits following the layout of the repository's sample file (DATA column TPF, sub-byte samples packed MSB-first along the flattened TPF order)",
    "layouts the reader cannot read in full are outside the statement's antecedent and are reported as out_of_scope, not as violations",
    "decode comparison within 1e-5 relative (library computes in float32); position independence and reductions compared exactly",
]
REQUIRED_OUTCOMES = ["whole/ok", "read_block/ok", "read_block/unaligned_crossing", "read_plan/ok", "reductions/ok", "header/ok"]


def bounds(tier: str) -> dict:
    return {"layouts": ["coherence", "stokes", "intensity", "ppqq"], "nbits": [8, 4], "nsblk": {8: [3, 4, 5], 4: [4, 6]}, "nsub": [2, 3, 4] if tier == "thorough" else [2, 3],
            "orders": ["desc", "asc"], "nchan": 4}


def shards(tier: str, seed: int) -> list:
    b = bounds(tier)
    out = []
    for layout in b["layouts"]:
        for nbits in b["nbits"]:
            for nsblk in b["nsblk"][nbits]:
                for nsub in b["nsub"]:
                    for order in b["orders"]:
                        out.append({"layout": layout, "nbits": nbits, "nsblk": nsblk, "nsub": nsub, "order": order})
    # NSTOT smaller than NSBLK x rows: the trailing samples of the last row are not valid data
    for layout in ("coherence", "stokes"):
        for short in (1, 2):
            out.append({"layout": layout, "nbits": 8, "nsblk": 4, "nsub": 3, "order": "desc", "nstot_short": short})
    # scale lane: files of 150 sub-integrations (row-varying scales, offsets and weights), reduced request sets
    for layout, order in (("coherence", "desc"), ("stokes", "asc")):
        out.append({"layout": layout, "nbits": 8, "nsblk": 4, "nsub": 150 if tier == "quick" else 300, "order": order, "long": True})
    return out


def _make(wd, shard, seed):
    layout, nbits, nsblk, nsub = shard["layout"], shard["nbits"], shard["nsblk"], shard["nsub"]
    npol = psrfits.POL_TYPES[layout][1]
    nchan = 4
    rng = np.random.default_rng([seed, nbits, nsblk, nsub, npol])
    raw = rng.integers(0, 1 << nbits, size=(nsub, nsblk, npol, nchan))
    # make every sample distinguishable in time: add a time ramp where the depth allows
    if nbits == 8:
        t = np.arange(nsub * nsblk).reshape(nsub, nsblk, 1, 1)
        raw = (raw // 4 + 3 * t) % 256
    freqs = 1400.0 - 8.0 * np.arange(nchan)
    if shard["order"] == "asc":
        freqs = freqs[::-1].copy()
    scl = 1.0 + 0.25 * rng.integers(0, 8, size=(nsub, npol, nchan))
    offs = 2.0 * rng.integers(-4, 5, size=(nsub, npol, nchan))
    wts = rng.choice([1.0, 0.5, 0.25], size=(nsub, nchan))
    if nsub == 3:
        # flag-style weights as well: a zero in some rows, all-ones in another
        wts[0, 1] = 0.0
        wts[1, :] = 1.0
    zero_off = 7.5 if nbits == 4 else 0.5
    path = str(wd / "syn.sf")
    nstot = None
    if shard.get("nstot_short"):
        nstot = nsub * nsblk - shard["nstot_short"]
    psrfits.make_psrfits(path, raw, nbits, layout, freqs, scl=scl, offs=offs, wts=wts, zero_off=zero_off, nstot=nstot)
    want = psrfits.decode(raw, layout, freqs, scl, offs, wts, zero_off)
    if nstot is not None:
        want = want[:nstot]
    return path, want, freqs


def run_shard(shard: dict, ctx, res, only=None) -> None:
    import warnings

    warnings.filterwarnings("ignore")
    from sigpyproc.readers import FilReader, PFITSReader

    wd = ctx.workdir("c18")
    path, want, freqs = _make(wd, shard, ctx.seed)
    N, C = want.shape
    nsblk = shard["nsblk"]
    base = {"shard": shard, "inner": None}
    res.evaluations += 1
    try:
        rdr = PFITSReader(path)
        whole = rdr.read_block(0, N)
        W = np.asarray(whole.data)
    except Exception as e:  # noqa: BLE001
        if shard["layout"] in ("coherence", "stokes"):
            # four-polarisation files are what the reader supports (its own sample file is one): (0, N) is an in-range request like any other
            res.violation({"site": "PFITSReader.read_block", "symptom": f"raised {type(e).__name__} on the in-range request (0, nsamples)", "layout": shard["layout"]},
                          {"shard": shard, "inner": ["whole", None]}, repr(e))
            return
        # layouts the reader cannot read at all are outside the statement's antecedent
        res.outcome(f"out_of_scope/{shard['layout']}")
        res.notes.append(f"layout {shard['layout']} cannot be read in full: {type(e).__name__}")
        return

    def run(name, inner):
        return only is None or only == [name, inner]

    # ---- whole read vs independent decode
    if run("whole", None):
        if W.shape != (C, N) or not np.allclose(W.T, want, rtol=1e-5, atol=1e-4):
            res.violation({"site": "PFITSReader.read_block", "symptom": "whole-file read differs from the independent decode", "layout": shard["layout"],
                           "order": shard["order"]}, {"shard": shard, "inner": ["whole", None]},
                          f"shape {W.shape}; first sample got {W[:, 0].tolist()} want {want[0].tolist()}")
            return
        res.outcome("whole/ok")
    # ---- header quantities
    if run("header", None):
        res.evaluations += 1
        H = rdr.header
        bad = []
        for k in ("fch1", "foff", "tsamp", "tstart"):
            v = getattr(H, k)
            if type(v) not in (float, int, np.float64, np.float32):
                bad.append(f"{k} is {type(v).__name__}")
        for k in ("nchans", "nbits", "nsamples"):
            v = getattr(H, k)
            if not isinstance(v, (int, np.integer)) or isinstance(v, bool):
                bad.append(f"{k} is {type(v).__name__}")
        if not bad:
            try:
                cf = np.asarray(H.chan_freqs, dtype=np.float64)
                desc = np.sort(freqs)[::-1]
                if not np.allclose(cf, desc, rtol=0, atol=1e-3):
                    bad.append(f"channel labels {cf.tolist()} do not describe the returned rows (descending {desc.tolist()})")
                if abs(float(H.tsamp) - 64e-6) > 1e-15 or int(H.nsamples) != N or int(H.nchans) != C or int(H.nbits) != shard["nbits"]:
                    bad.append(f"tsamp/nsamples/nchans/nbits = {H.tsamp}/{H.nsamples}/{H.nchans}/{H.nbits}")
                t0 = 58000 + (1000 + 0.25) / 86400.0
                if abs(float(H.tstart) - t0) > 1e-9:
                    bad.append(f"tstart {H.tstart!r} vs {t0!r}")
            except Exception as e:  # noqa: BLE001
                bad.append(f"header arithmetic raised {type(e).__name__}: {e}")
        if bad:
            res.violation({"site": "Header.from_pfits", "symptom": "header quantities are not plain numbers describing the data", "what": bad[0].split(" ")[0],
                           "order": shard["order"]}, {"shard": shard, "inner": ["header", None]}, "; ".join(bad))
        else:
            res.outcome("header/ok")
            res.nontrivial += 1
    # ---- every (start, nsamps)
    long = bool(shard.get("long"))
    if long:
        sts = [-1, 0, 1, nsblk * 63 + 1, nsblk * 64, nsblk * 64 + 2, nsblk * 130 + 3, N - 5, N]
        rb_pairs = [(a, b) for a in sts for b in sorted({1, 2, nsblk + 1, 3 * nsblk, 70 * nsblk + 1, max(1, N - a), N + 1 - max(a, 0)})]
    else:
        rb_pairs = [(a, b) for a in range(-1, N + 1) for b in range(1, N + 2)]
    for start, ns in rb_pairs:
        if True:
            if not run("read_block", [start, ns]):
                continue
            res.evaluations += 1
            inr = start >= 0 and start + ns <= N
            case = {"shard": shard, "inner": ["read_block", [start, ns]]}
            try:
                b = rdr.read_block(start, ns)
            except ValueError as e:
                if inr:
                    res.violation({"site": "PFITSReader.read_block", "symptom": "ValueError on an in-range request", "aligned": start % nsblk == 0}, case, repr(e))
                else:
                    res.outcome("read_block/out_of_range_raises")
                continue
            except Exception as e:  # noqa: BLE001
                res.violation({"site": "PFITSReader.read_block", "symptom": f"raised {type(e).__name__}", "in_range": inr}, case, repr(e))
                continue
            if not inr:
                res.violation({"site": "PFITSReader.read_block", "symptom": "out-of-range request did not raise"}, case, f"start={start} ns={ns} N={N}")
                continue
            if b.data.shape != (C, ns) or not np.array_equal(np.asarray(b.data), W[:, start : start + ns]):
                res.violation({"site": "PFITSReader.read_block", "symptom": "differs from the corresponding columns of the whole-file read", "aligned": start % nsblk == 0}, case,
                              f"start={start} ns={ns} NSBLK={nsblk}: got shape {b.data.shape}")
                continue
            res.outcome("read_block/ok")
            if start % nsblk and (start % nsblk) + ns > nsblk:
                res.outcome("read_block/unaligned_crossing")
                res.nontrivial += 1
    # ---- channel selection by first-channel frequency (same contract as the SIGPROC reader)
    cf = np.asarray(rdr.header.chan_freqs, dtype=np.float64)
    for k in range(C):
        for m in range(1, C - k + 1):
            if not run("select", [k, m]):
                continue
            res.evaluations += 1
            case = {"shard": shard, "inner": ["select", [k, m]]}
            try:
                b = rdr.read_block(1, min(3, N - 1), fch1=float(cf[k]), nchans=m)
            except Exception as e:  # noqa: BLE001
                res.violation({"site": "PFITSReader.read_block(fch1,nchans)", "symptom": f"raised {type(e).__name__}"}, case, f"fch1={cf[k]} nchans={m}: {e!r}")
                continue
            want_sel = W[k : k + m, 1 : 1 + min(3, N - 1)]
            lab = np.asarray(b.header.chan_freqs, dtype=np.float64)
            if b.data.shape != want_sel.shape or not np.array_equal(np.asarray(b.data), want_sel) or b.header.nchans != m or not np.allclose(lab, cf[k : k + m], atol=1e-3):
                res.violation({"site": "PFITSReader.read_block(fch1,nchans)", "symptom": "rows or labels do not match the requested channels"}, case,
                              f"fch1={cf[k]} nchans={m}: labels {lab.tolist()} shape {b.data.shape}")
                continue
            res.outcome("read_block/selection_ok")
            if k > 0:
                res.nontrivial += 1
    # ---- read_plan
    if long:
        rp = [(g, a, b) for g in (1, nsblk + 1, 100, 257, N) for a, b in ((0, None), (nsblk * 63 + 1, 41), (3, N - 7), (nsblk * 64, None))]
    else:
        rp = [(g, a, b) for g in range(1, N + 3) for a in range(N) for b in [*range(1, N - a + 1), None]]
    for g, start, ns in rp:
        if True:
            if True:
                n_eff = (N - start) if ns is None else ns
                for s in sorted({0, min(g, n_eff) // 2}):
                    if not run("read_plan", [g, start, ns, s]):
                        continue
                    res.evaluations += 1
                    case = {"shard": shard, "inner": ["read_plan", [g, start, ns, s]]}
                    try:
                        pieces = []
                        nb = 0
                        for nr, ii, data in rdr.read_plan(gulp=g, start=start, nsamps=ns, skipback=s, quiet=True, description="vf"):
                            arr = np.array(data, copy=True)
                            if arr.ndim != 1 or arr.size % C or arr.size // C != nr or nr > g or ii != nb:
                                raise AssertionError(f"block {nb}: size {arr.size} reported {nr} index {ii} gulp {g}")
                            blk = arr.reshape(nr, C)
                            pieces.append(blk if nb == 0 else blk[s:])
                            nb += 1
                        got = np.concatenate(pieces) if pieces else np.zeros((0, C))
                    except Exception as e:  # noqa: BLE001
                        res.violation({"site": "PFITSReader.read_plan", "symptom": f"raised {type(e).__name__}", "subrange": n_eff < N, "skipback": s > 0}, case, repr(e))
                        continue
                    if got.shape != (n_eff, C) or not np.array_equal(got, W[:, start : start + n_eff].T):
                        res.violation({"site": "PFITSReader.read_plan", "symptom": "blocks do not deliver [start,start+nsamps) exactly once", "subrange": n_eff < N,
                                       "skipback": s > 0}, case, f"gulp={g} start={start} ns={ns} skipback={s}: got {got.shape[0]} samples, want {n_eff}")
                        continue
                    res.outcome("read_plan/ok")
                    if nb > 1:
                        res.nontrivial += 1
    # ---- reductions vs the SIGPROC path
    try:
        filp = str(wd / "same.fil")
        Hs = rdr.header
        fx.write_fil(filp, W.T.astype(np.float32), 32, fch1=float(Hs.fch1), foff=float(Hs.foff), tsamp=float(Hs.tsamp), tstart=float(Hs.tstart))
        fil = FilReader(filp)
    except Exception as e:  # noqa: BLE001
        res.evaluations += 1
        res.violation({"site": "Header.from_pfits", "symptom": "header quantities cannot be used as plain numbers"}, {"shard": shard, "inner": ["reductions", "setup"]}, repr(e))
        return
    maxd = {dm: int(np.max(np.asarray(rdr.header.get_dmdelays(dm)))) for dm in (0.0, 2.0)}
    for g in ((nsblk + 1, 97, N) if long else (1, 2, nsblk, nsblk + 1, N, 10 * N)):
        for api in ("collapse", "bandpass", "read_chan:0", f"read_chan:{C - 1}", "dedisperse:0.0", "dedisperse:2.0", "stats"):
            if not run("reductions", [api, g]):
                continue
            if api.startswith("dedisperse") and maxd[float(api.split(":")[1])] >= N:
                res.skip("maxdelay>=nsamps")
                continue
            res.evaluations += 1
            case = {"shard": shard, "inner": ["reductions", [api, g]]}
            try:
                a = _reduce(rdr, api, g)
                b = _reduce(fil, api, g)
            except Exception as e:  # noqa: BLE001
                res.violation({"site": f"Filterbank.{api.split(':')[0]} on PFITSReader", "symptom": f"raised {type(e).__name__}"}, case, repr(e))
                continue
            if len(a) != len(b) or any(x.shape != y.shape or not np.allclose(x, y, rtol=1e-6, atol=1e-6) for x, y in zip(a, b)):
                res.violation({"site": f"Filterbank.{api.split(':')[0]} on PFITSReader", "symptom": "differs from the same reduction over a SIGPROC file with the same samples"}, case,
                              f"gulp={g}: {[x.tolist() for x in a][:1]} vs {[y.tolist() for y in b][:1]}")
                continue
            res.outcome("reductions/ok")
            if g < N:
                res.nontrivial += 1
    res.sample({"shard": shard, "inner": ["read_block", [nsblk - 1, 2]]}, cap=1)


def _reduce(r, api, g):
    name, _, arg = api.partition(":")
    kw = {"gulp": g, "quiet": True, "description": "vf"}
    if name == "collapse":
        return [np.asarray(r.collapse(**kw).data)]
    if name == "bandpass":
        return [np.asarray(r.bandpass(**kw).data)]
    if name == "read_chan":
        return [np.asarray(r.read_chan(int(arg), **kw).data)]
    if name == "dedisperse":
        return [np.asarray(r.dedisperse(float(arg), **kw).data)]
    r.compute_stats(**kw)
    cs = r.chan_stats
    return [np.asarray(x, dtype=np.float64) for x in (cs.moments["count"], cs.minima, cs.maxima, cs.mean, cs.var)]
