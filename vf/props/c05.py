"""C05 - SIGPROC headers survive encode/parse; in-place edits touch only their key.

Engine A, three sub-checks: (a) byte-level grammar round trip, (b) Header field round trip
through prep_outfile/from_sigproc over coupled-field grids, (c) every (key, value) edit.
"""
from __future__ import annotations

import itertools
import math
import struct

import numpy as np

from vf.core import fixtures as fx

PROP = "C05"
LEVEL = "exploration"
RULE = (
    "(a) generated well-formed headers: every key alone x its value alphabet, every ordered pair of optional keys, all "
    "permutations of a 5-key subset, the full 22-key header forward/reversed/rotated; encode(parse(bytes)) == bytes and "
    "hdrlen exact. (b) Header -> prep_outfile -> from_sigproc over grids: 10 RA x 29 Dec x 3 frames, 16 telescopes x 17 "
    "backends, channelisation x tsamp x tstart x nbits, names, beams, refdm, az/za. (c) every key of the table + unknown + "
    "absent keys x a value alphabet (valid, wrong type, wrong length, equal length) through edit_header. Non-trivial = "
    "every case except single-key headers with a zero value"
)
SCALE_LANE = 'strings of 81, 133 and 300 bytes; the command-line wrapper with 17 texts x every key'
ASSUMPTIONS = [
    "well-formed header = HEADER_START ... HEADER_END, recognised ASCII keys, no duplicates, nchans>=1 and nbits present",
    "finite double values only (NaN compares unequal to itself and is outside 'any finite field values')",
    "sky positions are compared as angular separation <= 0.01 arcsec",
]
REQUIRED_OUTCOMES = ["bytes/roundtrip", "fields/roundtrip", "edit/applied", "edit/refused_unchanged", "cli/unchanged", "cli/applied"]

ALPHA = {
    "I": [0, 1, 2**31, 2**32 - 1],
    "d": [0.0, 0.1, -1 / 3, 1e300, -5e-324, 235959.99],
    "b": [-128, 0, 127],
    "str": ["", "a", "J0437-4715 with spaces " + "x" * 57, " B0531+21  ", "  ", "tab\tname ", "/data/obs/2026-10-01/" + "p" * 60, "/very/long/path/" + "q" * 284 + ".raw"],
}
MANDATORY = [("nchans", 3), ("nbits", 8)]


def bounds(tier: str) -> dict:
    return {"pairs": "all ordered pairs of 20 optional keys", "perm_subset": 5 if tier == "quick" else 6,
            "chan_grid": "3 fch1 x 4 foff x 3 nchans x 3 tsamp x 3 tstart x 6 nbits" if tier == "thorough" else "pairwise-reduced"}


def shards(tier: str, seed: int) -> list:
    out = [{"kind": "bytes", "part": p} for p in ("single", "pairs", "perms", "full")]
    out += [{"kind": "fields", "part": p} for p in ("sky0", "sky1", "sky2", "ids", "chan", "misc")]
    out += [{"kind": "edits", "base": b} for b in ("full", "sparse")]
    out += [{"kind": "cli"}]  # the same edits through the command-line wrapper (spp_header update), whose values arrive as text
    for s in out:
        s["tier"] = tier
    return out


def run_shard(shard: dict, ctx, res, only=None) -> None:
    import warnings

    warnings.filterwarnings("ignore", message=".*dubious year.*")
    wd = ctx.workdir("c05")
    {"bytes": _bytes, "fields": _fields, "edits": _edits, "cli": _cli}[shard["kind"]](wd, shard, ctx, res, only)


# ------------------------------------------------------------------------------------------------
# (a) byte grammar


def _val(key: str, i: int):
    if key == "nchans":
        return [1, 3, 2**32 - 1][i % 3]
    if key == "nbits":
        return [8, 1, 2, 4, 16, 32][i % 6]
    a = ALPHA[fx.KEY_TYPES[key]]
    return a[i % len(a)]


def _gen_headers(part: str, tier: str):
    keys = list(fx.KEY_TYPES)
    opt = [k for k in keys if k not in ("nchans", "nbits")]
    if part == "single":
        for k in keys:
            n = 6 if k == "nbits" else 3 if k == "nchans" else len(ALPHA[fx.KEY_TYPES[k]])
            for i in range(n):
                base = [(m, v) for m, v in MANDATORY if m != k]
                yield [(k, _val(k, i)), *base]
                yield [*base, (k, _val(k, i))]
    elif part == "pairs":
        j = 0
        for a, b in itertools.permutations(opt, 2):
            j += 1
            yield [(a, _val(a, j)), MANDATORY[0], (b, _val(b, j // 3)), MANDATORY[1]]
    elif part == "perms":
        sub = ["source_name", "tstart", "signed", "ibeam", "nchans", "nbits", "foff"][: (5 if tier == "quick" else 6)]
        if "nchans" not in sub:
            sub = [*sub[:3], "nchans", "nbits"]
        rest = [m for m in MANDATORY if m[0] not in sub]
        j = 0
        for perm in itertools.permutations(sub):
            j += 1
            yield [*[(k, _val(k, j + n)) for n, k in enumerate(perm)], *rest]
    elif part == "full":
        for i in range(12):
            order = keys if i % 2 == 0 else keys[::-1]
            r = i % len(keys)
            order = order[r:] + order[:r]
            yield [(k, _val(k, i + n)) for n, k in enumerate(order)]


def _bytes(wd, shard, ctx, res, only):
    from sigpyproc.io import sigproc

    p = wd / "h.fil"
    gen = _gen_headers(shard["part"], shard["tier"])
    for idx, fields in enumerate(gen):
        if only is not None and idx != only:
            continue
        res.evaluations += 1
        case = {"shard": shard, "inner": idx}
        head = fx.encode_header(fields)
        tail = bytes(range(7, 7 + 12))
        p.write_bytes(head + tail)
        try:
            d = sigproc.parse_header(p)
            back = sigproc.encode_header(d)
        except Exception as e:  # noqa: BLE001
            res.violation({"site": "sigproc.parse_header/encode_header", "symptom": f"raised {type(e).__name__}"}, case,
                          f"fields={fields!r}: {e!r}")
            continue
        if d.get("hdrlen") != len(head):
            res.violation({"site": "sigproc.parse_header", "symptom": "hdrlen differs from the true header length"}, case,
                          f"{d.get('hdrlen')} != {len(head)} for {fields!r}")
            continue
        if back != head:
            res.violation({"site": "sigproc.encode_header", "symptom": "encode(parse(bytes)) != bytes"}, case,
                          f"fields={fields!r}\n orig={head.hex()}\n back={back.hex()}")
            continue
        bad = [k for k, v in fields if fx.enc_key(k, d.get(k)) != fx.enc_key(k, v)] if all(k in d for k, _ in fields) else ["missing key"]
        if bad:
            res.violation({"site": "sigproc.parse_header", "symptom": "parsed value differs"}, case, f"{bad} in {fields!r} -> {d!r}")
            continue
        res.outcome("bytes/roundtrip")
        if len(fields) > 3 or any(v not in (0, 0.0, "") for _, v in fields[:1]):
            res.nontrivial += 1
        res.sample({"sub": "bytes", "fields": [[k, (v if not isinstance(v, float) else repr(v))] for k, v in fields]}, cap=1)


# ------------------------------------------------------------------------------------------------
# (b) Header fields


RAS = ["00:00:00", "00:00:00.5", "12:34:56.7", "23:59:59.9", "05:00:00", "11:59:59.999", "18:30:30.25", "09:09:09.09", "23:59:59.99996", "05:34:31.97232"]
DECS = ["+00:00:00", "+00:00:00.5", "-00:00:00.5", "-00:00:01", "-00:30:00", "-00:30:00.5", "-00:59:59.99", "-01:00:00",
        "+00:30:00", "+00:59:59.99", "+01:00:00", "-00:10:10.1", "+89:59:59.9", "-89:59:59.9", "+12:34:56.7", "-12:34:56.7",
        "+45:00:00", "-45:00:00", "-00:01:00", "-00:00:59.9", "-09:59:59.99", "-10:00:00", "+00:00:59.9", "-60:30:30.3",
        "-00:45:15.75", "+00:45:15.75", "-00:59:59.99996", "+22:00:52.0690", "-00:00:59.99996"]
FRAMES = ["topocentric", "barycentric", "pulsarcentric"]


def _base_kwargs(wd):
    return dict(filename=str(wd / "src.fil"), data_type="filterbank", nchans=8, foff=-0.5, fch1=1400.0, nbits=8,
                tsamp=0.000256, tstart=58000.5, nsamples=0)


def _field_cases(part: str, tier: str):
    from sigpyproc.io import sigproc

    if part.startswith("sky"):
        fr = FRAMES[int(part[3])]
        for ra in RAS:
            for dec in DECS:
                yield {"coord": (ra, dec), "frame": fr}
    elif part == "ids":
        for t in sigproc.telescope_ids:
            for m in sigproc.machine_ids:
                yield {"telescope": t, "backend": m}
    elif part == "chan":
        fch1s, foffs, ncs = [1500.0, 1400.05, 0.1], [-4.0, -0.1, -1 / 3, 0.5], [1, 64, 4096]
        tsamps, tstarts, nbs = [64e-6, 1e-3, 0.1], [0.0, 58000.123456789, 60000.999999999], [1, 2, 4, 8, 16, 32]
        if tier == "thorough":
            for c in itertools.product(fch1s, foffs, ncs, tsamps, tstarts, nbs):
                yield dict(zip(("fch1", "foff", "nchans", "tsamp", "tstart", "nbits"), c))
        else:
            # all pairs of (channelisation triple) x (timing pair) and every nbits once per triple
            for i, (a, b, c) in enumerate(itertools.product(fch1s, foffs, ncs)):
                for j, (d, e) in enumerate(itertools.product(tsamps, tstarts)):
                    yield {"fch1": a, "foff": b, "nchans": c, "tsamp": d, "tstart": e, "nbits": nbs[(i + j) % 6]}
    elif part == "misc":
        for s in ["", "a", "J1234+5678", "B1937+21 (test)", "n" * 80, " B0531+21  ", "trailing ", " leading", "m" * 81, "k" * 133, "w" * 300]:
            yield {"source": s}
        for ib, nb in itertools.product([0, 1, 13], repeat=2):
            yield {"ibeam": ib, "nbeams": nb}
        for dm in [0.0, 0.1, 1234.5678, 1e-9]:
            yield {"dm": dm}
        for az, za in itertools.product([0.0, 0.1, 359.9, 123.456789], [0.0, 0.1, 89.999, 45.0]):
            yield {"azimuth": az, "zenith": za}
        # legal doubles outside the principal range: the file stores a plain number, nothing may wrap or clip it
        for az, za in [(-12.5, -5.0), (412.25, 120.0), (360.0, 90.0), (-360.0, 180.0), (720.5, -0.25)]:
            yield {"azimuth": az, "zenith": za}
        # the same physical angles given in other units
        for unit, az, za in (("rad", 2.5, 0.75), ("arcmin", 600.0, 90.5), ("hourangle", 3.25, 1.5)):
            yield {"azimuth": az, "zenith": za, "angle_unit": unit}
        for fr in FRAMES:
            yield {"frame": fr}


def _fields(wd, shard, ctx, res, only):
    from astropy import units as u
    from astropy.coordinates import Angle, SkyCoord

    from sigpyproc.header import Header

    for idx, upd in enumerate(_field_cases(shard["part"], shard["tier"])):
        if only is not None and idx != only:
            continue
        res.evaluations += 1
        case = {"shard": shard, "inner": idx}
        kw = _base_kwargs(wd)
        kw.update({k: v for k, v in upd.items() if k != "angle_unit"})
        if "coord" in upd:
            kw["coord"] = SkyCoord(upd["coord"][0], upd["coord"][1], unit=(u.hourangle, u.deg))
        for k in ("azimuth", "zenith"):
            if k in upd:
                kw[k] = Angle(upd[k], unit=getattr(u, upd.get("angle_unit", "deg")))
        try:
            h = Header(**kw)
            out = str(wd / "o.fil")
            w = h.prep_outfile(out)
            w.close()
            g = Header.from_sigproc(out)
        except Exception as e:  # noqa: BLE001
            res.violation({"site": "Header.prep_outfile/from_sigproc", "symptom": f"raised {type(e).__name__}", "group": shard["part"][:3]},
                          case, f"{upd!r}: {e!r}")
            continue
        diffs = []
        for f in ("nchans", "foff", "fch1", "nbits", "tsamp", "tstart", "source", "telescope", "backend", "ibeam", "nbeams", "dm", "frame"):
            if getattr(h, f) != getattr(g, f):
                diffs.append(f"{f}: wrote {getattr(h, f)!r} read {getattr(g, f)!r}")
        sep = h.coord.separation(g.coord).arcsec
        if not (sep <= 0.01):
            diffs.append(f"coord: wrote {h.ra} {h.dec} read {g.ra} {g.dec} (separation {sep:.4f} arcsec)")
        for f in ("azimuth", "zenith"):
            if abs(getattr(h, f).deg - getattr(g, f).deg) > 1e-12:
                diffs.append(f"{f}: wrote {getattr(h, f).deg!r} read {getattr(g, f).deg!r}")
        if diffs:
            fields = sorted({d.split(":")[0] for d in diffs})
            res.violation({"site": "Header.to_sigproc/from_sigproc", "symptom": "field not preserved", "fields": ",".join(fields)}, case,
                          f"{upd!r}: " + "; ".join(diffs))
            continue
        res.outcome("fields/roundtrip")
        res.nontrivial += 1
        res.sample({"sub": "fields", "update": {k: (v if isinstance(v, (int, float, str)) else list(v)) for k, v in upd.items()}}, cap=1)


# ------------------------------------------------------------------------------------------------
# (c') edits through the command-line wrapper


def _cli(wd, shard, ctx, res, only):
    from click.testing import CliRunner

    from sigpyproc.apps import spp_header

    fields = fx.std_fields(4, 8)
    fields = [*fields, ("ibeam", 3), ("refdm", 12.5)]
    head = fx.encode_header(fields)
    data = bytes((i * 11 + 5) % 256 for i in range(64))
    p = wd / "cli.fil"
    texts = ["8", "8.5", "12.7", "2.999", "1e3", "4096.0", "-1", "abc", "", " 7", "0x10", "1_000", "nan", "inf", "3.25", "B0531+21", "x" * 40]
    idx = -1
    for key, _ in [*fields, ("not_a_key", 0)]:
        for text in texts:
            idx += 1
            if only is not None and idx != only:
                continue
            res.evaluations += 1
            case = {"shard": shard, "inner": idx}
            p.write_bytes(head + data)
            try:
                r = CliRunner().invoke(spp_header.main, ["update", str(p), "-i", key, text])
                refused = r.exit_code != 0
            except Exception:  # noqa: BLE001
                refused = True
            after_bytes = p.read_bytes()
            if after_bytes == head + data:
                res.outcome("cli/unchanged")
                continue
            if refused:
                res.violation({"site": "spp_header update", "symptom": "raised but the file changed"}, case, f"key={key!r} text={text!r}")
                continue
            try:
                aft, aft_len = fx.parse_header_bytes(after_bytes)
            except Exception as e:  # noqa: BLE001
                res.violation({"site": "spp_header update", "symptom": "header malformed after a successful edit"}, case, f"key={key!r} text={text!r}: {e!r}")
                continue
            after = dict(aft)
            if len(after_bytes) != len(head) + len(data) or aft_len != len(head) or after_bytes[len(head):] != data or [k for k, _ in aft] != [k for k, _ in fields] \
                    or any(fx.enc_key(k, v) != fx.enc_key(k, after[k]) for k, v in fields if k != key):
                res.violation({"site": "spp_header update", "symptom": "header length, data bytes or other keys changed"}, case, f"key={key!r} text={text!r}")
                continue
            # the key changed: it must now hold exactly what the text says, in the key's own type
            t = fx.KEY_TYPES[key]
            old = dict(fields)[key]
            if t == "str":
                ok = after[key] == (text[: len(old)] + " " * (len(old) - len(text)))
            elif t == "d":
                try:
                    ok = struct.pack("<d", after[key]) == struct.pack("<d", float(text))
                except ValueError:
                    ok = False
            else:
                try:
                    ok = float(after[key]) == float(text)  # '1e3' or '4096.0' may be taken as the integer they equal; '8.5' stored as 8 is not the requested edit
                except ValueError:
                    ok = False
            if not ok:
                res.violation({"site": "spp_header update", "symptom": "edited key does not hold the given value"}, case, f"key={key!r} text={text!r} after={after[key]!r}")
                continue
            res.outcome("cli/applied")
            res.nontrivial += 1


# ------------------------------------------------------------------------------------------------
# (c) edits


def _edit_values(key: str, old):
    vals = [0, 1, 7, -1, 2**32, 1.5, -2.25e10, "abc", "", None, True]
    if isinstance(old, str):
        vals += ["y" * len(old), "z" * (len(old) + 3), "q" * max(0, len(old) - 2), " " + "p" * max(0, len(old) - 2) + " "]
    return vals


def _edits(wd, shard, ctx, res, only):
    from sigpyproc.io import sigproc

    keys = list(fx.KEY_TYPES)
    if shard["base"] == "full":
        fields = [(k, _val(k, 1 + n)) for n, k in enumerate(keys)]
        fields = [(k, ("PSR J0437" if k == "source_name" else "raw.dat" if k == "rawdatafile" else v)) for k, v in fields]
    else:
        fields = fx.std_fields(4, 8)
    present = dict(fields)
    data = bytes((i * 11 + 5) % 256 for i in range(64))
    head = fx.encode_header(fields)
    p = wd / "e.fil"
    targets = [*keys, "not_a_key", "HEADER_END", "nsamples"]
    idx = -1
    for key in targets:
        for val in _edit_values(key, present.get(key)):
            idx += 1
            if only is not None and idx != only:
                continue
            res.evaluations += 1
            case = {"shard": shard, "inner": idx}
            p.write_bytes(head + data)
            before_bytes = head + data
            try:
                sigproc.edit_header(p, key, val)
                raised = None
            except Exception as e:  # noqa: BLE001
                raised = e
            after_bytes = p.read_bytes()
            if raised is not None:
                if after_bytes != before_bytes:
                    res.violation({"site": "sigproc.edit_header", "symptom": "raised but the file changed"}, case,
                                  f"key={key!r} value={val!r}: {raised!r}")
                else:
                    res.outcome("edit/refused_unchanged")
                    res.nontrivial += 1
                continue
            # returned normally: inspect the file with /verif's own parser
            try:
                aft_fields, aft_len = fx.parse_header_bytes(after_bytes)
            except Exception as e:  # noqa: BLE001
                res.violation({"site": "sigproc.edit_header", "symptom": "header malformed after a successful edit"}, case,
                              f"key={key!r} value={val!r}: {e!r}")
                continue
            if len(after_bytes) != len(before_bytes) or aft_len != len(head) or after_bytes[len(head):] != data:
                res.violation({"site": "sigproc.edit_header", "symptom": "header length or data bytes changed"}, case,
                              f"key={key!r} value={val!r}")
                continue
            after = dict(aft_fields)
            if [k for k, _ in aft_fields] != [k for k, _ in fields]:
                res.violation({"site": "sigproc.edit_header", "symptom": "keys other than the edited one changed"}, case,
                              f"key={key!r} value={val!r}: key list changed")
                continue
            others = [k for k, v in fields if k != key and fx.enc_key(k, v) != fx.enc_key(k, after[k])]
            if others:
                res.violation({"site": "sigproc.edit_header", "symptom": "keys other than the edited one changed"}, case,
                              f"key={key!r} value={val!r}: changed {others}")
                continue
            before = present
            # the new value must be the one given
            t = fx.KEY_TYPES[key]
            if t == "str":
                old = before[key]
                ok = isinstance(val, str) and after[key] == (val[: len(old)] + " " * (len(old) - len(val)))
            else:
                try:
                    ok = struct.pack("<" + t, after[key]) == struct.pack("<" + t, val)
                except struct.error:
                    ok = False
            if not ok:
                res.violation({"site": "sigproc.edit_header", "symptom": "edited key does not hold the given value"}, case,
                              f"key={key!r} value={val!r} after={after[key]!r}")
                continue
            res.outcome("edit/applied")
            res.nontrivial += 1
            res.sample({"sub": "edits", "key": key, "value": repr(val)}, cap=1)
