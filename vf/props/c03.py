"""C03 - bit packing/unpacking are exact inverses at every depth and order.

Engine A, complete over the finite domain: every byte value at every position of arrays of
length 0..5, every field tuple per byte, both orders (and accepted spellings), with and
without a caller buffer; the rejection matrix; default order per depth through reader/writer.
"""
from __future__ import annotations

import itertools

import numpy as np

from vf.core import fixtures as fx

PROP = "C03"
LEVEL = "exploration"
RULE = (
    "complete domain: nbits in {1,2,4} x order spellings x all 256 byte values at every position of arrays of length "
    "1..5 (neighbours = complement) + empty array; all 256 field tuples per byte through pack; round trips; with/without "
    "output buffer; long arrays (4097 ... 1 048 583 packed bytes, hashed and saturated-run data, every element compared); rejection matrix (dtype, nbits, order, buffer size); default order through FileWriter/FileReader; thorough adds one array per (depth, order) "
    "whose unpacked length is 2**31 + 4099*(8/nbits), every element compared (index arithmetic beyond the int32 range). "
    "Non-trivial = every case except the empty-array ones"
)
SCALE_LANE = 'packed lengths 4097, 65535, 65536, 65537, 84000, 131073, 200003, 1048583 (thorough +16777259) x depth x order x {hashed, saturated runs}, every element compared; thorough: one array per (depth, order) of 2**31 + 4099*(8/nbits) samples'
ASSUMPTIONS = ["reference = bit-field definition evaluated with Python integers (vf.core.fixtures.ref_pack/ref_unpack)"]
REQUIRED_OUTCOMES = ["unpack/ok", "pack/ok", "roundtrip/ok", "reject/ok", "file/ok", "long/ok"]
MAX_WORKERS = 12

ORDERS = ["big", "little", "b", "l", "bigendian", "L"]


def bounds(tier: str) -> dict:
    return {"maxlen": 5 if tier == "quick" else 7, "nbits": [1, 2, 4], "orders": ORDERS}


def shards(tier: str, seed: int) -> list:
    b = bounds(tier)
    out = []
    for nbits in b["nbits"]:
        for order in b["orders"]:
            out.append({"kind": "kernels", "nbits": nbits, "order": order, "maxlen": b["maxlen"]})
        out.append({"kind": "reject", "nbits": nbits})
        out.append({"kind": "file", "nbits": nbits})
        # scale lane: lengths around and beyond 2**16 packed bytes (not multiples of any tile size), every element compared
        out.append({"kind": "long", "nbits": nbits, "lengths": [4097, 65535, 65536, 65537, 84000, 131073, 200003, 1048583] + ([16777259] if tier == "thorough" else [])})
    if tier == "thorough":
        # index-width boundary: one array per (depth, order) whose unpacked length crosses 2**31; one shard, run serially (about 3 GB at a time)
        out.append({"kind": "huge", "cases": [[nb, o] for nb in b["nbits"] for o in ("big", "little")]})
    return out


def _canon(order: str) -> str:
    return "big" if order[0] == "b" else "little"


def run_shard(shard: dict, ctx, res, only=None) -> None:
    kind = shard["kind"]
    if kind == "kernels":
        _kernels(shard, res, only)
    elif kind == "reject":
        _reject(shard, res, only)
    elif kind == "huge":
        _huge(shard, res, only)
    elif kind == "long":
        _long(shard, res, only)
    else:
        _file(shard, ctx, res, only)


def _kernels(shard, res, only):
    from sigpyproc.io import bits

    nbits, order = shard["nbits"], shard["order"]
    if order == "L":
        # capital letters are not accepted spellings: must be rejected
        res.evaluations += 1
        try:
            bits.unpack(np.zeros(1, dtype=np.uint8), nbits, bitorder=order)
        except ValueError:
            res.outcome("reject/ok")
            res.nontrivial += 1
        except Exception as e:  # noqa: BLE001
            res.violation({"site": "bits.unpack", "symptom": f"raised {type(e).__name__} for bad order"}, {"shard": shard, "inner": None}, repr(e))
        else:
            res.violation({"site": "bits.unpack", "symptom": "bad bit order accepted"}, {"shard": shard, "inner": None}, order)
        return
    co = _canon(order)
    per = 8 // nbits
    cases = []
    for n in range(0, shard["maxlen"] + 1):
        if n == 0:
            cases.append((0, 0, 0))
            continue
        for pos in range(n):
            for v in range(256):
                cases.append((n, pos, v))
    if only is not None:
        cases = [tuple(only)]
    for n, pos, v in cases:
        case = {"shard": shard, "inner": [n, pos, v]}
        res.evaluations += 1
        arr = np.full(n, (~v) & 0xFF, dtype=np.uint8)
        if n:
            arr[pos] = v
        want = fx.ref_unpack(arr.tobytes(), nbits, co)
        # unpack without buffer
        try:
            got = bits.unpack(arr, nbits, bitorder=order)
            buf = np.full(n * per, 0xAA, dtype=np.uint8)
            got2 = bits.unpack(arr, nbits, buf, bitorder=order)
        except Exception as e:  # noqa: BLE001
            res.violation({"site": "bits.unpack", "symptom": f"raised {type(e).__name__}"}, case, repr(e))
            continue
        if got.dtype != np.uint8 or got.size != n * per or not np.array_equal(got, want):
            res.violation({"site": "bits.unpack", "symptom": "wrong values", "nbits": nbits, "order": co}, case,
                          f"bytes={arr.tolist()} got={got.tolist()} want={want.tolist()}")
            continue
        if got2 is not buf or not np.array_equal(buf, want):
            res.violation({"site": "bits.unpack", "symptom": "caller buffer result differs / not returned", "nbits": nbits}, case,
                          f"got={buf.tolist()} want={want.tolist()}")
            continue
        if got.size and int(got.max()) >= (1 << nbits):
            res.violation({"site": "bits.unpack", "symptom": "value out of range"}, case, f"{got.tolist()}")
            continue
        res.outcome("unpack/ok")
        # pack the unpacked values: must reproduce the bytes
        try:
            back = bits.pack(got, nbits, bitorder=order)
            pbuf = np.full(n, 0x55, dtype=np.uint8)
            back2 = bits.pack(got, nbits, pbuf, bitorder=order)
        except Exception as e:  # noqa: BLE001
            res.violation({"site": "bits.pack", "symptom": f"raised {type(e).__name__}"}, case, repr(e))
            continue
        if back.dtype != np.uint8 or not np.array_equal(back, arr):
            res.violation({"site": "bits.pack", "symptom": "pack(unpack(b)) != b", "nbits": nbits, "order": co}, case,
                          f"bytes={arr.tolist()} back={back.tolist()}")
            continue
        if back2 is not pbuf or not np.array_equal(pbuf, arr):
            res.violation({"site": "bits.pack", "symptom": "caller buffer result differs / not returned", "nbits": nbits}, case,
                          f"bytes={arr.tolist()} back={pbuf.tolist()}")
            continue
        res.outcome("roundtrip/ok")
        if n:
            res.nontrivial += 1
    if only is not None:
        return
    # every field tuple per byte through pack (256 per depth), embedded at each position of a 3-byte array
    for fields in itertools.product(range(1 << nbits), repeat=per):
        for pos in range(3):
            res.evaluations += 1
            vals = np.full(3 * per, (1 << nbits) - 1, dtype=np.uint8)
            vals[pos * per : (pos + 1) * per] = fields
            if pos != 1:
                vals[per : 2 * per] = 0
            want = fx.ref_pack(vals, nbits, co)
            case = {"shard": shard, "inner": None}
            try:
                got = bits.pack(vals, nbits, bitorder=order)
                rt = bits.unpack(got, nbits, bitorder=order)
            except Exception as e:  # noqa: BLE001
                res.violation({"site": "bits.pack", "symptom": f"raised {type(e).__name__}"}, case, repr(e))
                continue
            if got.tobytes() != want:
                res.violation({"site": "bits.pack", "symptom": "wrong bytes", "nbits": nbits, "order": co}, case,
                              f"fields={vals.tolist()} got={got.tolist()} want={list(want)}")
                continue
            if not np.array_equal(rt, vals):
                res.violation({"site": "bits.unpack", "symptom": "unpack(pack(v)) != v", "nbits": nbits, "order": co}, case,
                              f"fields={vals.tolist()} rt={rt.tolist()}")
                continue
            # fast reference used by the file builders must agree with the slow one
            if fx.fast_ref_pack(vals, nbits, co) != want:
                res.violation({"site": "harness", "symptom": "fast_ref_pack != ref_pack"}, case, "")
            res.outcome("pack/ok")
            res.nontrivial += 1
    res.sample({"nbits": nbits, "order": order, "example": {"byte": 0xB4, "unpacked": fx.ref_unpack(bytes([0xB4]), nbits, co).tolist()}}, cap=1)


def _vec_unpack(chunk: np.ndarray, nbits: int, co: str) -> np.ndarray:
    per = 8 // nbits
    mask = (1 << nbits) - 1
    out = np.empty((chunk.size, per), dtype=np.uint8)
    for j in range(per):
        sh = (8 - nbits * (j + 1)) if co == "big" else nbits * j
        out[:, j] = (chunk >> sh) & mask
    return out.reshape(-1)


def _long(shard, res, only):
    from sigpyproc.io import bits

    nbits = shard["nbits"]
    per = 8 // nbits
    for n in shard["lengths"]:
        for co in ("big", "little"):
            for dclass in ("hashed", "saturated_runs"):
                if only is not None and [n, co, dclass] != only:
                    continue
                case = {"shard": shard, "inner": [n, co, dclass]}
                res.evaluations += 1
                i = np.arange(n, dtype=np.uint64)
                arr = ((i * np.uint64(2654435761)) >> np.uint64(7)).astype(np.uint8)
                if dclass == "saturated_runs":
                    arr[(i // np.uint64(97)) % np.uint64(3) == 0] = 0xFF  # runs of bytes with every field at the top level
                want = _vec_unpack(arr, nbits, co)
                try:
                    got = bits.unpack(arr, nbits, bitorder=co)
                    buf = np.full(n * per, 0xAA, dtype=np.uint8)
                    got2 = bits.unpack(arr, nbits, buf, bitorder=co)
                    back = bits.pack(want, nbits, bitorder=co)
                except Exception as e:  # noqa: BLE001
                    res.violation({"site": "bits.pack/unpack", "symptom": f"raised {type(e).__name__} on a long array"}, case, repr(e))
                    continue
                bad = None
                for name, g, w in (("unpack", got, want), ("unpack into a caller buffer", got2, want), ("pack", back, arr)):
                    if g.shape != w.shape or not np.array_equal(g, w):
                        k = int(np.flatnonzero(g[: min(g.size, w.size)] != w[: min(g.size, w.size)])[0]) if g.size and (g[: min(g.size, w.size)] != w[: min(g.size, w.size)]).any() else min(g.size, w.size)
                        bad = (name, f"{name}: {n} packed bytes, first wrong element {k} (of {w.size}); got {g[k:k+8].tolist()} want {w[k:k+8].tolist()}")
                        break
                if bad:
                    res.violation({"site": "bits." + bad[0].split()[0], "symptom": "wrong values on a long array", "nbits": nbits, "order": co}, case, bad[1])
                    continue
                res.outcome("long/ok")
                res.nontrivial += 1


def _huge(shard, res, only):
    import gc

    from sigpyproc.io import bits

    CH = 1 << 24
    for nbits, co in shard["cases"]:
        if only is not None and [nbits, co] != only:
            continue
        per = 8 // nbits
        n = (1 << 31) // per + 4099  # unpacked length 2**31 + 4099*per: output offsets pass the int32 range
        case = {"shard": shard, "inner": [nbits, co]}
        res.evaluations += 1
        probe = np.arange(256, dtype=np.uint8)
        if not np.array_equal(_vec_unpack(probe, nbits, co), fx.ref_unpack(probe.tobytes(), nbits, co)):
            res.violation({"site": "harness", "symptom": "vectorised reference != ref_unpack"}, case, "")
            continue
        arr = np.empty(n, dtype=np.uint8)
        for lo in range(0, n, CH):
            i = np.arange(lo, min(n, lo + CH), dtype=np.uint64)
            arr[lo : lo + CH] = ((i * np.uint64(131)) ^ (i >> np.uint64(9)) ^ (i >> np.uint64(23))).astype(np.uint8)
        try:
            got = bits.unpack(arr, nbits, bitorder=co)
        except Exception as e:  # noqa: BLE001
            res.violation({"site": "bits.unpack", "symptom": f"raised {type(e).__name__} on an array of more than 2**31 samples"}, case, repr(e))
            continue
        bad = None
        if got.dtype != np.uint8 or got.size != n * per:
            bad = f"size {got.size} want {n * per}"
        else:
            for lo in range(0, n, CH):
                want = _vec_unpack(arr[lo : lo + CH], nbits, co)
                g = got[lo * per : lo * per + want.size]
                if not np.array_equal(g, want):
                    k = int(np.flatnonzero(g != want)[0])
                    bad = f"first wrong sample at index {lo * per + k}: got {int(g[k])} want {int(want[k])}"
                    break
        if bad:
            res.violation({"site": "bits.unpack", "symptom": "wrong values beyond 2**31 samples", "nbits": nbits, "order": co}, case, bad)
            del got, arr
            gc.collect()
            continue
        res.outcome("unpack/huge_ok")
        try:
            back = bits.pack(got, nbits, bitorder=co)
        except Exception as e:  # noqa: BLE001
            res.violation({"site": "bits.pack", "symptom": f"raised {type(e).__name__} on an array of more than 2**31 samples"}, case, repr(e))
            continue
        if back.size != n or not np.array_equal(back, arr):
            k = int(np.flatnonzero(back[: min(back.size, n)] != arr[: min(back.size, n)])[0]) if back.size else -1
            res.violation({"site": "bits.pack", "symptom": "pack(unpack(b)) != b beyond 2**31 samples", "nbits": nbits, "order": co}, case, f"size {back.size}/{n}, first wrong byte {k}")
        else:
            res.outcome("roundtrip/huge_ok")
            res.nontrivial += 1
        del got, arr, back
        gc.collect()


def _reject(shard, res, only):
    from sigpyproc.io import bits

    nbits = shard["nbits"]
    per = 8 // nbits
    good_p = np.zeros(4, dtype=np.uint8)
    good_u = np.zeros(4 * per, dtype=np.uint8)
    trials = []
    for dt in (np.int8, np.uint16, np.int64, np.float32, np.float64, np.bool_):
        trials.append(("unpack", (good_p.astype(dt), nbits), {}, f"dtype {np.dtype(dt)}"))
        trials.append(("pack", (good_u.astype(dt), nbits), {}, f"dtype {np.dtype(dt)}"))
    for nb in (0, 3, 5, 8, 16, -1):
        trials.append(("unpack", (good_p, nb), {}, f"nbits {nb}"))
        trials.append(("pack", (good_u, nb), {}, f"nbits {nb}"))
    for od in ("", "x", "middle", "Big"):
        trials.append(("unpack", (good_p, nbits), {"bitorder": od}, f"order {od!r}"))
        trials.append(("pack", (good_u, nbits), {"bitorder": od}, f"order {od!r}"))
    for d in (-1, 1):
        trials.append(("unpack", (good_p, nbits, np.zeros(4 * per + d, dtype=np.uint8)), {}, f"buffer size {d:+d}"))
        trials.append(("pack", (good_u, nbits, np.zeros(4 + d, dtype=np.uint8)), {}, f"buffer size {d:+d}"))
    for fn, a, kw, what in trials:
        res.evaluations += 1
        case = {"shard": shard, "inner": None}
        try:
            getattr(bits, fn)(*a, **kw)
        except ValueError:
            res.outcome("reject/ok")
            res.nontrivial += 1
        except Exception as e:  # noqa: BLE001
            res.violation({"site": f"bits.{fn}", "symptom": f"raised {type(e).__name__} instead of ValueError", "what": what}, case, repr(e))
        else:
            res.violation({"site": f"bits.{fn}", "symptom": "invalid argument accepted", "what": what}, case, what)


def _file(shard, ctx, res, only):
    """Default order per depth, as used by the writer and the reader, against raw bytes."""
    from sigpyproc.header import Header
    from sigpyproc.io.bits import BitsInfo
    from sigpyproc.readers import FilReader

    nbits = shard["nbits"]
    per = 8 // nbits
    wd = ctx.workdir("c03")
    case = {"shard": shard, "inner": None}
    res.evaluations += 1
    want_order = fx.DEFAULT_ORDER[nbits]
    if BitsInfo(nbits).bitorder != want_order:
        res.violation({"site": "BitsInfo.bitorder", "symptom": "default order changed", "nbits": nbits}, case,
                      f"{BitsInfo(nbits).bitorder} != {want_order}")
        return
    # all 256 byte values as one file, nchans = per (one byte per sample)
    raw = bytes(range(256))
    X = fx.ref_unpack(raw, nbits, want_order).reshape(256, per)
    p = str(wd / "in.fil")
    hl = fx.write_fil(p, X, nbits)
    assert open(p, "rb").read()[hl:] == raw
    fil = FilReader(p)
    blk = fil.read_block(0, 256)
    if not np.array_equal(blk.data, X.T.astype(np.float32)):
        res.violation({"site": "FilReader.read_block", "symptom": "unpacked file differs from the bit-field definition", "nbits": nbits}, case, "")
        return
    # writer: pack through prep_outfile/cwrite and compare the raw bytes
    out = str(wd / "out.fil")
    w = fil.header.prep_outfile(out, nbits=nbits)
    w.cwrite(X.reshape(-1).astype(np.uint8))
    w.close()
    hdr = Header.from_sigproc(out)
    got = open(out, "rb").read()[hdr.stream_info.entries[0].hdrlen :]
    if got != raw:
        res.violation({"site": "FileWriter.cwrite", "symptom": "packed file differs from the bit-field definition", "nbits": nbits}, case,
                      f"first bytes got={list(got[:8])} want={list(raw[:8])}")
        return
    res.outcome("file/ok")
    res.nontrivial += 1
