"""C02 - a multi-file stream reads as the concatenation of its data sections.

Engine B (explicit-state): breadth-first search to closure over the reachable states
(ifile_cur, tell) of a real FileReader; every transition executes the real method on a fresh
reader (history replayed) and a bytes model, and compares them. Plus engine A on read_block
(all ranges; all ordered pairs of requests on one reader).
"""
from __future__ import annotations

from collections import deque

import numpy as np

from vf.core import fixtures as fx

PROP = "C02"
LEVEL = "model_checking"
RULE = (
    "for every depth and every composition of L items over 1..3 files (empty files included): BFS to closure over "
    "FileReader states keyed by (ifile_cur, tell); alphabet = all in-range aligned seek(o,0), seek(d,1), cread(k) and "
    "creadinto(n) for k,n in {0,1,2,3,to/over each file boundary, to EOF, past EOF}; every transition compared with a "
    "bytes model (returned data, byte count, cur_data_pos_stream). read_block: all (start,nsamps) incl. out-of-range, and "
    "all ordered pairs of in-range requests. Non-trivial = transition that crosses a file boundary, starts or ends at a "
    "boundary/EOF, or an out-of-range request. A scale lane runs every history seek(q,0); seek(p-q,1); read; cread(2); seek(-1,1); creadinto(3) over a "
    "reduced alphabet (positions at/around every boundary, reads to/over every boundary, 65537 items) on five member files of 0.5-1 M items"
)
SCALE_LANE = 'five member files of 524288/32/960000/755680/32 items per depth: every history seek(q,0); seek(p-q,1); read; cread(2); seek(-1,1); creadinto(3) over positions at/around every boundary and reads to/over every boundary and of 65537 items; one file set of 20 MiB + 5 MiB with reads of 16 MiB, 16 MiB + 1, to and over the boundary'
ASSUMPTIONS = [
    "the mutable state of FileReader is (ifile_cur, file_obj position); asserted from vars(reader) at start-up, any extra attribute is folded into the state key",
    "per-file data lengths are whole items (a file ending inside a 16/32-bit item is malformed and out of scope)",
    "regular files: no short reads are injected",
    "after an operation that raises (counted read past the end) the reader is not explored further",
]
REQUIRED_OUTCOMES = [
    "cread/ok",
    "cread/crosses_boundary",
    "cread/past_eof_raises",
    "creadinto/ok",
    "creadinto/crosses_boundary",
    "creadinto/short_at_eof",
    "seek0/ok",
    "seek1/ok",
    "read_block/ok",
    "read_block/out_of_range_raises",
    "scale_lane/ok",
]

SCALE_LENGTHS = [524288, 32, 960000, 755680, 32]

EXPECTED_ATTRS = {"sinfo", "bitsinfo", "files", "mode", "opener", "ifile_cur", "file_obj"}


def bounds(tier: str) -> dict:
    if tier == "quick":
        return {"depths": [8, 1, 2, 4, 16, 32], "Lmax": {8: 8, 1: 6, 2: 6, 4: 6, 16: 6, 32: 6}, "max_files": 3, "rb_pairs_N": 4}
    return {"depths": [8, 1, 2, 4, 16, 32], "Lmax": {8: 14, 1: 10, 2: 10, 4: 10, 16: 10, 32: 10}, "max_files": 3, "rb_pairs_N": 6}


def shards(tier: str, seed: int) -> list:
    b = bounds(tier)
    out = []
    for nbits in b["depths"]:
        for L in range(1, b["Lmax"][nbits] + 1):
            out.append({"kind": "stream", "nbits": nbits, "L": L})
            out.append({"kind": "read_block", "nbits": nbits, "L": L, "pairs": L <= b["rb_pairs_N"]})
    if tier == "thorough":
        for nbits in b["depths"]:
            out.append({"kind": "random", "nbits": nbits, "L": 12, "nhist": 300, "hlen": 50})
    # scale lane: five member files of ordinary size (0.5-1 M items, two of them tiny); reduced alphabet, every (position, position, read) triple
    for nbits in ((8, 2, 32) if tier == "quick" else b["depths"]):
        out.append({"kind": "scale", "nbits": nbits, "lengths": SCALE_LENGTHS})
    # single reads of more than 16 MiB inside one member and across a boundary (two members of 20 MiB and 5 MiB)
    out.append({"kind": "scale", "nbits": 8, "lengths": [20 * (1 << 20), 5 * (1 << 20) + 1], "big_reads": True})
    if tier == "thorough":
        out.append({"kind": "scale", "nbits": 32, "lengths": [5 * (1 << 20), 3 * (1 << 20) + 1], "big_reads": True})
    return out


# ---------------------------------------------------------------------------------------


def _nchans(nbits: int) -> int:
    return 8 // nbits if nbits < 8 else 1


def _isz(nbits: int) -> int:
    return {1: 1, 2: 1, 4: 1, 8: 1, 16: 2, 32: 4}[nbits]


def _stream_data(nbits: int, L: int) -> tuple[np.ndarray, bytes]:
    """X[L, nchans] samples (one item per sample) and the raw data bytes of the whole stream."""
    C = _nchans(nbits)
    if nbits == 32:
        X = (np.arange(L, dtype=np.float32) + 1.5).reshape(L, 1)
    elif nbits == 16:
        X = (np.arange(L, dtype=np.uint16) * 257 + 1000).reshape(L, 1)
    elif nbits == 8:
        X = (np.arange(L, dtype=np.uint16) + 129).astype(np.uint8).reshape(L, 1)
    else:
        raw = (np.arange(L, dtype=np.uint16) * 37 + 129).astype(np.uint8)
        X = fx.ref_unpack(raw.tobytes(), nbits).reshape(L, C)
    return X, fx.to_raw(X, nbits)


def _build(wd, nbits: int, lengths: list[int], tag: str):
    L = sum(lengths)
    X, M = _stream_data(nbits, L)
    paths = fx.make_fileset(wd, X, nbits, list(lengths), stem=tag)
    return X, M, paths


def _ops_for(p: int, L: int, isz: int, fbounds: list[int]):
    for o in range(0, L, isz):
        yield ("seek0", o)
    for q in range(0, L, isz):
        yield ("seek1", q - p)
    ks = {0, 1, 2, 3}
    for b in [*fbounds, L]:
        if b >= p:
            ks.add((b - p) // isz)
            ks.add((b - p) // isz + 1)
    for k in sorted(ks):
        yield ("cread", k)
    for k in sorted(ks):
        yield ("creadinto", k * isz)


def _key(fr):
    extra = tuple(sorted((k, repr(v)) for k, v in vars(fr).items() if k not in EXPECTED_ATTRS))
    return (fr.ifile_cur, fr.file_obj.tell(), extra)


class _Mismatch(Exception):
    def __init__(self, sig: dict, detail: str):
        self.sig, self.detail = sig, detail if len(detail) < 2000 else detail[:2000] + " ..."


def _apply(fr, op, M: bytes, p: int, nbits: int, fbounds: list[int], res, *, classify: bool):
    """Run one operation on the real reader and on the model. Returns new model position or None (terminal)."""
    kind, arg = op
    L = len(M)
    isz = _isz(nbits)
    bitfact = 8 // nbits if nbits < 8 else 1
    site = f"FileReader.{'seek' if kind.startswith('seek') else kind}"
    try:
        if kind == "seek0":
            fr.seek(arg, 0)
            newp = arg
        elif kind == "seek1":
            fr.seek(arg, 1)
            newp = p + arg
        elif kind == "cread":
            nb = arg * isz
            past = p + nb > L
            try:
                arr = fr.cread(arg * bitfact)
            except Exception as e:  # noqa: BLE001
                if past:
                    if classify:
                        res.outcome("cread/past_eof_raises")
                        res.nontrivial += 1
                    return None
                raise _Mismatch({"site": site, "symptom": f"raised {type(e).__name__} on an in-range read"}, repr(e)) from None
            if past:
                raise _Mismatch(
                    {"site": site, "symptom": "counted read past the end did not raise"},
                    f"asked {arg} items at byte {p} of {L}, got {len(arr)} values",
                )
            exp = M[p : p + nb]
            if nbits < 8:
                want = fx.ref_unpack(exp, nbits)
                ok = arr.dtype == np.uint8 and np.array_equal(arr, want)
            else:
                want = np.frombuffer(exp, dtype=fx.NP_DTYPE[nbits])
                ok = arr.dtype == want.dtype and arr.tobytes() == exp
            if not ok:
                raise _Mismatch(
                    {"site": site, "symptom": "returned data differ from the model slice"},
                    f"at byte {p}, {arg} items: got {np.asarray(arr).tolist()} want {want.tolist()}",
                )
            newp = p + nb
            if classify:
                res.outcome("cread/ok")
                if any(p < b < newp for b in fbounds):
                    res.outcome("cread/crosses_boundary")
        elif kind == "creadinto":
            n = arg
            buf = bytearray(b"\xee" * n)
            ubuf = bytearray(b"\xdd" * (n * bitfact)) if nbits < 8 else None
            got = fr.creadinto(buf, ubuf)
            exp = M[p : p + n]
            if got != len(exp):
                raise _Mismatch(
                    {"site": site, "symptom": "wrong byte count returned"},
                    f"at byte {p} of {L}, buffer {n}: returned {got}, model {len(exp)}",
                )
            if bytes(buf[:got]) != exp:
                raise _Mismatch(
                    {"site": site, "symptom": "buffer contents differ from the model slice"},
                    f"at byte {p}, buffer {n}: got {list(buf[:got])} want {list(exp)}",
                )
            if bytes(buf[got:]) != b"\xee" * (n - got):
                raise _Mismatch({"site": site, "symptom": "bytes beyond the returned count were modified"}, f"{list(buf)}")
            if ubuf is not None:
                want = fx.ref_unpack(exp, nbits)
                if not np.array_equal(np.frombuffer(ubuf, dtype=np.uint8)[: got * bitfact], want):
                    raise _Mismatch(
                        {"site": site, "symptom": "unpacked buffer differs from the model slice"},
                        f"at byte {p}: got {list(ubuf[:got*bitfact])} want {want.tolist()}",
                    )
            newp = p + got
            if classify:
                res.outcome("creadinto/ok")
                if any(p < b < newp for b in fbounds):
                    res.outcome("creadinto/crosses_boundary")
                if got < n:
                    res.outcome("creadinto/short_at_eof")
        else:
            raise AssertionError(kind)
    except _Mismatch:
        raise
    except Exception as e:  # noqa: BLE001
        raise _Mismatch({"site": site, "symptom": f"raised {type(e).__name__}"}, f"{op} at byte {p}: {e!r}") from None
    if kind.startswith("seek") and classify:
        res.outcome(f"{kind}/ok")
    pos = fr.cur_data_pos_stream
    if pos != newp:
        raise _Mismatch(
            {"site": "FileReader.cur_data_pos_stream", "symptom": "position differs from the model", "after": kind},
            f"after {op} from byte {p}: reported {pos}, model {newp}",
        )
    if classify and (p in fbounds or newp in fbounds or newp == L or any(p < b < newp for b in fbounds)):
        res.nontrivial += 1
    return newp


def _fresh(paths, nbits):
    from sigpyproc.header import Header
    from sigpyproc.io.fileio import FileReader

    hdr = Header.from_sigproc(paths, check_contiguity=False)
    return FileReader(hdr.stream_info, mode="r", nbits=nbits)


def _replay(paths, nbits, M, fbounds, history, res):
    fr = _fresh(paths, nbits)
    p = 0
    for op in history:
        p = _apply(fr, tuple(op), M, p, nbits, fbounds, res, classify=False)
        if p is None:
            fr.close()
            return None, None
    return fr, p


def _explore_fileset(wd, nbits, lengths, res, ctx, tag):
    isz = _isz(nbits)
    X, M, paths = _build(wd, nbits, lengths, tag)
    L = len(M)
    fbounds = [int(b) * isz for b in np.cumsum(lengths)[:-1]]
    base = {"kind": "stream", "nbits": nbits, "L": sum(lengths)}

    def viol(m: _Mismatch, history, op):
        res.violation(m.sig, {"shard": base, "inner": {"lengths": list(lengths), "history": history, "op": op}}, m.detail)

    # initial state
    try:
        fr = _fresh(paths, nbits)
    except Exception as e:  # noqa: BLE001
        res.violation({"site": "FileReader.__init__", "symptom": f"raised {type(e).__name__}"},
                      {"shard": base, "inner": {"lengths": list(lengths), "history": [], "op": None}}, repr(e))
        return
    attrs = set(vars(fr).keys())
    if attrs != EXPECTED_ATTRS:
        res.notes.append(f"FileReader attributes differ from the expected set: {sorted(attrs ^ EXPECTED_ATTRS)} (folded into state key)")
    res.evaluations += 1
    pos0 = fr.cur_data_pos_stream
    k0 = _key(fr)
    fr.close()
    if pos0 != 0:
        viol(_Mismatch({"site": "FileReader.__init__", "symptom": "initial stream position is not 0"},
                       f"cur_data_pos_stream={pos0} right after construction"), [], None)
        return
    seen = {k0: []}
    frontier = deque([(k0, [], 0)])
    ntrans = 0
    while frontier:
        _key0, hist, p = frontier.popleft()
        for op in _ops_for(p, L, isz, fbounds):
            try:
                fr, p2 = _replay(paths, nbits, M, fbounds, hist, res)
            except _Mismatch as m:  # replay of an already validated history must not fail
                res.violation({"site": "harness", "symptom": "validated history failed on replay (nondeterminism)"},
                              {"shard": base, "inner": {"lengths": list(lengths), "history": hist, "op": None}}, m.detail)
                return
            assert p2 == p
            res.evaluations += 1
            ntrans += 1
            try:
                newp = _apply(fr, op, M, p, nbits, fbounds, res, classify=True)
            except _Mismatch as m:
                viol(m, hist, list(op))
                fr.close()
                continue
            if newp is None:
                fr.close()
                continue
            k = _key(fr)
            fr.close()
            if k not in seen:
                seen[k] = hist + [list(op)]
                frontier.append((k, hist + [list(op)], newp))
    res.count("states", len(seen))
    res.count("transitions", ntrans)
    res.count("filesets", 1)
    res.maximum("max_states_per_fileset", len(seen))
    res.maximum("max_history_depth", max(len(h) for h in seen.values()))
    res.sample({"nbits": nbits, "lengths": list(lengths), "states": sorted([list(k[:2]) for k in seen]),
                "example_history": max(seen.values(), key=len)}, cap=2)


def _check_read_block(wd, nbits, lengths, res, pairs: bool, tag):
    from sigpyproc.readers import FilReader

    X, M, paths = _build(wd, nbits, lengths, tag)
    N = X.shape[0]
    base = {"kind": "read_block", "nbits": nbits, "L": N, "pairs": pairs}

    def one(fil, start, ns, hist):
        res.evaluations += 1
        inr = start >= 0 and ns >= 1 and start + ns <= N
        case = {"shard": base, "inner": {"lengths": list(lengths), "history": hist, "op": [start, ns]}}
        try:
            blk = fil.read_block(start, ns)
        except ValueError as e:
            if inr:
                res.violation({"site": "FilReader.read_block", "symptom": "ValueError on an in-range request"}, case, repr(e))
            else:
                res.outcome("read_block/out_of_range_raises")
                res.nontrivial += 1
            return
        except Exception as e:  # noqa: BLE001
            res.violation({"site": "FilReader.read_block", "symptom": f"raised {type(e).__name__}", "in_range": inr}, case, repr(e))
            return
        if not inr:
            res.violation({"site": "FilReader.read_block", "symptom": "out-of-range request did not raise"}, case,
                          f"start={start} nsamps={ns} N={N}: returned shape {blk.data.shape}")
            return
        want = X[start : start + ns].T.astype(np.float32)
        if blk.data.shape != want.shape or not np.array_equal(blk.data, want):
            res.violation({"site": "FilReader.read_block", "symptom": "data differ from the model slice"}, case,
                          f"start={start} nsamps={ns}: got {np.asarray(blk.data).tolist()} want {want.tolist()}")
            return
        res.outcome("read_block/ok")
        fb = np.cumsum(lengths)[:-1]
        if any(start < b < start + ns for b in fb) or hist:
            res.nontrivial += 1

    try:
        fil = FilReader(paths, check_contiguity=False)
    except Exception as e:  # noqa: BLE001
        res.violation({"site": "FilReader.__init__", "symptom": f"raised {type(e).__name__}"},
                      {"shard": base, "inner": {"lengths": list(lengths), "history": [], "op": None}}, repr(e))
        return
    reqs = [(s, n) for s in range(-1, N + 2) for n in range(1, N + 3)]
    for s, n in reqs:
        one(fil, s, n, [])
    if pairs:
        inr = [(s, n) for s, n in reqs if s >= 0 and s + n <= N]
        for a in inr:
            for b in inr:
                f2 = FilReader(paths, check_contiguity=False)
                try:
                    f2.read_block(*a)
                except Exception:  # noqa: BLE001
                    continue  # already reported above
                one(f2, b[0], b[1], [list(a)])
                f2._file.close()
    fil._file.close()


def _random_histories(wd, shard, ctx, res):
    import random

    nbits = shard["nbits"]
    rng = random.Random(ctx.seed * 1000 + nbits)
    isz = _isz(nbits)
    for h in range(shard["nhist"]):
        k = rng.randint(1, 3)
        cuts = sorted(rng.randint(0, shard["L"]) for _ in range(k - 1))
        lengths = [b - a for a, b in zip([0, *cuts], [*cuts, shard["L"]])]
        X, M, paths = _build(wd, nbits, lengths, f"r{h}_")
        L = len(M)
        fbounds = [int(b) * isz for b in np.cumsum(lengths)[:-1]]
        fr = _fresh(paths, nbits)
        p = 0
        hist = []
        for _ in range(shard["hlen"]):
            ops = [o for o in _ops_for(p, L, isz, fbounds) if not (o[0] == "cread" and p + o[1] * isz > L)]
            op = rng.choice(ops)
            res.evaluations += 1
            res.count("aux_random_ops")
            try:
                p = _apply(fr, op, M, p, nbits, fbounds, res, classify=False)
            except _Mismatch as m:
                res.violation(m.sig, {"shard": {"kind": "stream", "nbits": nbits, "L": shard["L"]},
                                      "inner": {"lengths": lengths, "history": hist, "op": list(op)}}, m.detail)
                break
            hist.append(list(op))
        fr.close()


def _scale_setup(wd, nbits, lengths, seed):
    isz = _isz(nbits)
    L = sum(lengths)
    C = _nchans(nbits)
    if nbits == 32:
        X = (np.arange(L, dtype=np.float32) + 1.5).reshape(L, 1)
    elif nbits == 16:
        X = fx.label_data(L, 1, 16, seed)
    else:
        X = fx.label_data(L, C, nbits, seed)  # hashed values: no period that an offset error could hide in
    M = fx.to_raw(X, nbits)
    paths = fx.make_fileset(wd, X, nbits, list(lengths), stem="big")
    fbounds = [int(b) * isz for b in np.cumsum(lengths)[:-1]]
    return M, paths, fbounds


def _scale_positions(L, isz, fbounds):
    P = {0, isz, L - isz, 70000 * isz}
    for b in fbounds:
        P |= {b - isz, b, b + isz}
    return sorted(x for x in P if 0 <= x < L)


def _scale_reads(p, L, isz, fbounds):
    ks = {1, 3, 65537}
    for b in [*fbounds, L]:
        if b >= p:
            ks |= {(b - p) // isz, (b - p) // isz + 1}
    for k in sorted(k for k in ks if k > 0):
        yield ("cread", k)
        yield ("creadinto", k * isz)


def _scale(wd, shard, ctx, res, only=None):
    """Depth-3 exploration over a reduced alphabet on files of ordinary size: seek(q,0); seek(p-q,1); read; then one more short read."""
    nbits, lengths = shard["nbits"], shard["lengths"]
    isz = _isz(nbits)
    M, paths, fbounds = _scale_setup(wd, nbits, lengths, ctx.seed)
    L = len(M)
    P = _scale_positions(L, isz, fbounds)
    Q = [0, fbounds[0], fbounds[min(2, len(fbounds) - 1)] + isz, L - isz]
    cases = [[q, p, list(op)] for p in P for q in Q for op in _scale_reads(p, L, isz, fbounds)]
    if shard.get("big_reads"):
        M16 = (1 << 24) // isz
        cases = []
        for p in (0, isz, (1 << 20) * isz):
            for k in sorted({M16, M16 + 1, (fbounds[0] - p) // isz, (fbounds[0] - p) // isz + 1, (L - p) // isz}):
                cases += [[0, p, ["cread", k]], [fbounds[0], p, ["creadinto", k * isz]]]
    if only is not None:
        cases = [only["scale"]]
    for q, p, op in cases:
        res.evaluations += 1
        hist = [["seek0", q], ["seek1", p - q], op, ["cread", 2], ["seek1", -isz], ["creadinto", 3 * isz]]
        fr = _fresh(paths, nbits)
        pos = 0
        try:
            for j, o in enumerate(hist):
                pos = _apply(fr, tuple(o), M, pos, nbits, fbounds, res, classify=(j == 2))
                if pos is None:
                    break
            res.outcome("scale_lane/ok")
        except _Mismatch as m:
            res.violation(m.sig, {"shard": shard, "inner": {"scale": [q, p, op], "lengths": lengths}}, f"history {hist[: j + 1]}: {m.detail}")
        finally:
            fr.close()


def run_shard(shard: dict, ctx, res, only=None) -> None:
    wd = ctx.workdir("c02")
    nbits = shard["nbits"]
    if shard["kind"] == "scale":
        return _scale(wd, shard, ctx, res, only)
    if only is not None:
        lengths = only["lengths"]
        if shard["kind"] == "stream":
            isz = _isz(nbits)
            X, M, paths = _build(wd, nbits, lengths, "rp")
            fbounds = [int(b) * isz for b in np.cumsum(lengths)[:-1]]
            res.evaluations += 1
            try:
                fr = _fresh(paths, nbits)
                if fr.cur_data_pos_stream != 0:
                    raise _Mismatch({"site": "FileReader.__init__", "symptom": "initial stream position is not 0"},
                                    f"cur_data_pos_stream={fr.cur_data_pos_stream}")
                p = 0
                for op in [*only["history"], *([only["op"]] if only["op"] else [])]:
                    p = _apply(fr, tuple(op), M, p, nbits, fbounds, res, classify=False)
                    if p is None:
                        break
            except _Mismatch as m:
                res.violation(m.sig, {"shard": shard, "inner": only}, m.detail)
            except Exception as e:  # noqa: BLE001
                res.violation({"site": "FileReader.__init__", "symptom": f"raised {type(e).__name__}"}, {"shard": shard, "inner": only}, repr(e))
        else:
            _check_read_block(wd, nbits, lengths, res, False, "rp")
            if only.get("history"):
                from sigpyproc.readers import FilReader

                X, M, paths = _build(wd, nbits, lengths, "rq")
                f2 = FilReader(paths, check_contiguity=False)
                f2.read_block(*only["history"][0])
                s, n = only["op"]
                blk = f2.read_block(s, n)
                want = X[s : s + n].T.astype(np.float32)
                if blk.data.shape != want.shape or not np.array_equal(blk.data, want):
                    res.violation({"site": "FilReader.read_block", "symptom": "data differ from the model slice"},
                                  {"shard": shard, "inner": only}, "after a previous read_block")
        return
    if shard["kind"] == "random":
        _random_histories(wd, shard, ctx, res)
        return
    i = 0
    for lengths in fx.compositions(shard["L"], 3, allow_zero=True):
        i += 1
        if shard["kind"] == "stream":
            _explore_fileset(wd, nbits, list(lengths), res, ctx, f"s{i}_")
        else:
            _check_read_block(wd, nbits, list(lengths), res, shard.get("pairs", False), f"b{i}_")


def finalize(total, ctx) -> dict:
    st = int(total.counters.get("states", 0))
    tr = int(total.counters.get("transitions", 0))
    return {
        "states": st,
        "transitions": tr,
        "traces_validated_against_impl": tr,
        "filesets": int(total.counters.get("filesets", 0)),
        "closure_reached": True,
        "explanation": "every transition is executed on the real FileReader (fresh object, shortest history replayed) and on the bytes model",
    }
