"""C14 - time-domain filters and decimators equal their definitions.

Engine A, complete over a small box: running mean/median for every (length, window, dtype),
decimators for every factor on both axes, detrending, de-reddening, and the container methods.
"""
from __future__ import annotations

import numpy as np

PROP = "C14"
LEVEL = "exploration"
RULE = (
    "complete box: length n in 1..12 (24) x window 1..2n+3 x {mean, median} x {float32, float64, uint8} for running_filter; "
    "downsample_1d for every factor 1..n (+ n+1 must be refused) x both methods x 3 dtypes; downsample_2d and downsample_2d_flat for "
    "every (f1,f2) on non-square shapes x both methods; FilterbankBlock.downsample, TimeSeries.downsample (data and header); detrend_1d vs "
    "least squares for n in 1..Nmax; TimeSeries.deredden == input - running filter. Non-trivial = window > 1 or factor > 1; windows "
    "larger than the data are counted separately"
)
SCALE_LANE = 'detrending of 65 537 .. 3 000 017 samples; constant uint8 blocks for every factor pair up to 24 x 16'
ASSUMPTIONS = [
    "for even window widths either of the two possible centres is accepted (the statement cannot distinguish them); odd widths pin the alignment",
    "integer-typed outputs (uint8 mean kernels) are compared with floor(mean); float outputs within 64*eps(dtype)*max|x|*sqrt(n)",
    "data are seeded pseudo-random values plus a ramp; the enumerated dimensions are length, window/factor, method and dtype",
]
REQUIRED_OUTCOMES = ["running/ok", "running/window_gt_length", "running/even_window", "down1d/ok", "down1d/refused", "down2d/ok", "down2d_flat/ok",
                     "block_downsample/ok", "ts_downsample/ok", "detrend/ok", "deredden/ok"]

DTYPES = ["float32", "float64", "uint8"]


def bounds(tier: str) -> dict:
    return {"nmax": 12 if tier == "quick" else 24, "dtypes": DTYPES}


def shards(tier: str, seed: int) -> list:
    b = bounds(tier)
    out = [{"kind": "running", "n": n} for n in range(1, b["nmax"] + 1)]
    out += [{"kind": "down1d", "nmax": b["nmax"]}, {"kind": "down2d", "big": tier == "thorough"}, {"kind": "detrend", "nmax": 3 * b["nmax"]},
            {"kind": "containers", "nmax": b["nmax"]}]
    return out


def _series(n, dtype, seed):
    rng = np.random.default_rng([seed, n, DTYPES.index(dtype)])
    if dtype == "uint8":
        return rng.integers(0, 256, n).astype(np.uint8)
    return (rng.normal(0, 3, n) + 0.5 * np.arange(n)).astype(dtype)


def _reflect_index(i, n):
    j = np.mod(i, 2 * n)
    return np.where(j >= n, 2 * n - 1 - j, j)


def _tol(dtype, x, n):
    eps = float(np.finfo(np.float32 if dtype != "float64" else np.float64).eps)
    return 64 * eps * max(float(np.max(np.abs(x.astype(np.float64)))), 1.0) * np.sqrt(max(n, 1))


def run_shard(shard: dict, ctx, res, only=None) -> None:
    {"running": _running, "down1d": _down1d, "down2d": _down2d, "detrend": _detrend, "containers": _containers}[shard["kind"]](shard, ctx, res, only)


def _running(shard, ctx, res, only):
    from sigpyproc.core import stats

    n = shard["n"]
    for dtype in DTYPES:
        x = _series(n, dtype, ctx.seed)
        xf = x.astype(np.float64)
        for w in range(1, 2 * n + 4):
            for method in ("mean", "median"):
                if only is not None and [dtype, w, method] != only:
                    continue
                res.evaluations += 1
                case = {"shard": shard, "inner": [dtype, w, method]}
                try:
                    got = np.asarray(stats.running_filter(x, w, method=method), dtype=np.float64)
                except Exception as e:  # noqa: BLE001
                    res.violation({"site": "stats.running_filter", "symptom": f"raised {type(e).__name__}", "window_gt_length": w > n}, case, repr(e))
                    continue
                if not np.array_equal(x, xf.astype(x.dtype)):
                    res.violation({"site": "stats.running_filter", "symptom": "the caller's array was modified", "method": method}, case, f"n={n} window={w} dtype={dtype}")
                    x = xf.astype(x.dtype)
                    continue
                if got.shape != (n,):
                    res.violation({"site": "stats.running_filter", "symptom": "output length differs from the input", "window_gt_length": w > n}, case,
                                  f"n={n} window={w}: got {got.shape}")
                    continue
                op = np.mean if method == "mean" else np.median
                t = np.arange(n)[:, None]
                offs = [-(w // 2)] if w % 2 else [-(w // 2), -(w // 2) + 1]
                tol = _tol(dtype, x, w)
                ok = False
                for off in offs:
                    idx = _reflect_index(t + off + np.arange(w)[None, :], n)
                    want = op(xf[idx], axis=1)
                    if np.all(np.abs(got - want) <= tol):
                        ok = True
                        break
                if not ok:
                    idx = _reflect_index(t + offs[0] + np.arange(w)[None, :], n)
                    want = op(xf[idx], axis=1)
                    res.violation({"site": "stats.running_filter", "symptom": "differs from the centred window on the reflected series", "method": method,
                                   "window_gt_length": w > n}, case,
                                  f"n={n} window={w} dtype={dtype}: got {got.tolist()} want {want.tolist()}")
                    continue
                res.outcome("running/ok")
                if w > n:
                    res.outcome("running/window_gt_length")
                if w % 2 == 0:
                    res.outcome("running/even_window")
                if w > 1:
                    res.nontrivial += 1
    res.sample({"shard": shard, "inner": ["float32", 2 * n + 1, "median"]}, cap=1)


def _down1d(shard, ctx, res, only):
    from sigpyproc.core import stats

    for n in range(1, shard["nmax"] + 1):
        for dtype in DTYPES:
            x = _series(n, dtype, ctx.seed)
            xf = x.astype(np.float64)
            for f in range(1, n + 2):
                for method in ("mean", "median"):
                    if only is not None and [n, dtype, f, method] != only:
                        continue
                    res.evaluations += 1
                    case = {"shard": shard, "inner": [n, dtype, f, method]}
                    try:
                        got = stats.downsample_1d(x, f, method=method)
                    except ValueError as e:
                        if f > n:
                            res.outcome("down1d/refused")
                            res.nontrivial += 1
                        else:
                            res.violation({"site": "stats.downsample_1d", "symptom": "ValueError for a valid factor"}, case, repr(e))
                        continue
                    except Exception as e:  # noqa: BLE001
                        res.violation({"site": "stats.downsample_1d", "symptom": f"raised {type(e).__name__}"}, case, repr(e))
                        continue
                    if f > n:
                        res.violation({"site": "stats.downsample_1d", "symptom": "factor larger than the data accepted"}, case, f"n={n} factor={f}")
                        continue
                    if not np.array_equal(x, xf.astype(x.dtype)):
                        res.violation({"site": "stats.downsample_1d", "symptom": "the caller's array was modified", "method": method}, case, f"n={n} factor={f} dtype={dtype}")
                        x = xf.astype(x.dtype)
                        continue
                    m = n // f
                    grp = xf[: m * f].reshape(m, f)
                    want = grp.mean(1) if method == "mean" else np.median(grp, axis=1)
                    if method == "mean" and dtype == "uint8":
                        want = np.floor(want)
                    g = np.asarray(got, dtype=np.float64)
                    if g.shape != (m,) or not np.all(np.abs(g - want) <= _tol(dtype, x, f)):
                        res.violation({"site": "stats.downsample_1d", "symptom": "differs from the group mean/median", "method": method}, case,
                                      f"n={n} factor={f} dtype={dtype}: got {g.tolist()} want {want.tolist()}")
                        continue
                    res.outcome("down1d/ok")
                    if f > 1:
                        res.nontrivial += 1


def _down2d(shard, ctx, res, only):
    from sigpyproc.core import kernels, stats

    # exact integer means: a block of the constant v must decimate to v for every factor pair (no x.9999 -> x-1 truncation)
    if only is None or only[0] == "const":
        for f1 in range(1, 25):
            for f2 in range(1, 17):
                if only is not None and only[1:] != [f1, f2]:
                    continue
                res.evaluations += 1
                case = {"shard": shard, "inner": ["const", f1, f2]}
                bad = None
                for v in (1, 3, 7, 200, 255):
                    a = np.full(f1 * 2 * f2 * 2, v, dtype=np.uint8)
                    for nm, k in (("downsample_2d_mean_flat", kernels.downsample_2d_mean_flat), ("downsample_2d_mean_parallel", kernels.downsample_2d_mean_parallel)):
                        r = np.asarray(k(a, f1, f2, f1 * 2, f2 * 2))
                        if r.shape != (4,) or not np.all(r == v):
                            bad = (nm, v, r.tolist())
                    if f2 == 1:
                        for nm, k in (("downsample_1d_mean", kernels.downsample_1d_mean), ("downsample_1d_mean_parallel", kernels.downsample_1d_mean_parallel)):
                            r = np.asarray(k(np.full(f1 * 3, v, dtype=np.uint8), f1))
                            if not np.all(r == v):
                                bad = (nm, v, r.tolist())
                if bad:
                    res.violation({"site": f"kernels.{bad[0]}", "symptom": "mean of a constant integer block is not that constant"}, case,
                                  f"factors ({f1},{f2}): constant {bad[1]} decimates to {bad[2]}")
                else:
                    res.outcome("down2d_flat/ok")
                    if f1 * f2 > 1:
                        res.nontrivial += 1
        if only is not None:
            return

    shapes = [(4, 6), (5, 7), (6, 4), (1, 5), (3, 1)] + ([(8, 12), (9, 5)] if shard["big"] else [])
    for d1, d2 in shapes:
        for dtype in DTYPES:
            rng = np.random.default_rng([ctx.seed, d1, d2, DTYPES.index(dtype)])
            A = (rng.integers(0, 200, (d1, d2)).astype(dtype) if dtype == "uint8" else (rng.normal(0, 2, (d1, d2)) + np.arange(d2)).astype(dtype))
            Af = A.astype(np.float64)
            for f1 in range(1, d1 + 1):
                for f2 in range(1, d2 + 1):
                    for method in ("mean", "median"):
                        if only is not None and [d1, d2, dtype, f1, f2, method] != only:
                            continue
                        n1, n2 = d1 // f1, d2 // f2
                        blk = Af[: n1 * f1, : n2 * f2].reshape(n1, f1, n2, f2)
                        want = blk.mean(axis=(1, 3)) if method == "mean" else np.median(blk, axis=(1, 3))
                        tol = _tol(dtype, A, f1 * f2)
                        case = {"shard": shard, "inner": [d1, d2, dtype, f1, f2, method]}
                        res.evaluations += 1
                        try:
                            g = np.asarray(stats.downsample_2d(A, (f1, f2), method), dtype=np.float64)
                            if g.shape != want.shape or not np.all(np.abs(g - want) <= tol):
                                res.violation({"site": "stats.downsample_2d", "symptom": "differs from the block mean/median", "method": method}, case,
                                              f"shape {(d1, d2)} factors {(f1, f2)}: got {g.tolist()} want {want.tolist()}")
                            else:
                                res.outcome("down2d/ok")
                                if f1 * f2 > 1:
                                    res.nontrivial += 1
                        except Exception as e:  # noqa: BLE001
                            res.violation({"site": "stats.downsample_2d", "symptom": f"raised {type(e).__name__}"}, case, repr(e))
                        res.evaluations += 1
                        try:
                            g = np.asarray(stats.downsample_2d_flat(np.ascontiguousarray(A).ravel(), f1, f2, d1, d2, method), dtype=np.float64)
                            w2 = np.floor(want) if (method == "mean" and dtype == "uint8") else want
                            if g.shape != (n1 * n2,) or not np.all(np.abs(g - w2.ravel()) <= tol):
                                res.violation({"site": "stats.downsample_2d_flat", "symptom": "differs from the block mean/median", "method": method}, case,
                                              f"shape {(d1, d2)} factors {(f1, f2)}: got {g.tolist()} want {w2.ravel().tolist()}")
                            else:
                                res.outcome("down2d_flat/ok")
                                if f1 * f2 > 1:
                                    res.nontrivial += 1
                        except Exception as e:  # noqa: BLE001
                            res.violation({"site": "stats.downsample_2d_flat", "symptom": f"raised {type(e).__name__}"}, case, repr(e))
                        if not np.array_equal(A, Af.astype(A.dtype)):
                            res.violation({"site": "stats.downsample_2d", "symptom": "the caller's array was modified", "method": method}, case, f"shape {(d1, d2)} factors {(f1, f2)}")
                            A = Af.astype(A.dtype)


def _detrend(shard, ctx, res, only):
    from sigpyproc.core import kernels

    # long arrays: the closed-form sums grow like m^3 and m^4
    for n in (65537, 102571, 300001, 1000003, 3000017):
        if only is not None and [n, "float64"] != only:
            continue
        res.evaluations += 1
        case = {"shard": shard, "inner": [n, "float64"]}
        t = np.arange(n, dtype=np.float64)
        x = 3.0 + 2e-5 * t + np.sin(t * 0.001)
        try:
            got = np.asarray(kernels.detrend_1d(x), dtype=np.float64)
        except Exception as e:  # noqa: BLE001
            res.violation({"site": "kernels.detrend_1d", "symptom": f"raised {type(e).__name__}"}, case, repr(e))
            continue
        tc = t - t.mean()
        slope = float((tc * (x - x.mean())).sum() / (tc * tc).sum())
        want = x - (x.mean() + slope * tc)
        dev = float(np.max(np.abs(got - want)))
        if got.shape != want.shape or not (dev <= 1e-6):
            res.violation({"site": "kernels.detrend_1d", "symptom": "differs from the least-squares residual", "long_array": True}, case, f"n={n}: max dev {dev:.3e}")
            continue
        res.outcome("detrend/ok")
        res.nontrivial += 1
    for n in range(1, shard["nmax"] + 1):
        for dtype in ("float32", "float64"):
            if only is not None and [n, dtype] != only:
                continue
            res.evaluations += 1
            case = {"shard": shard, "inner": [n, dtype]}
            x = _series(n, dtype, ctx.seed) * 2 + 7
            try:
                got = np.asarray(kernels.detrend_1d(x), dtype=np.float64)
            except Exception as e:  # noqa: BLE001
                res.violation({"site": "kernels.detrend_1d", "symptom": f"raised {type(e).__name__}"}, case, repr(e))
                continue
            xf = x.astype(np.float64)
            if n == 1:
                want = np.zeros(1)
            else:
                A = np.vstack([np.arange(n), np.ones(n)]).T
                coef, *_ = np.linalg.lstsq(A, xf, rcond=None)
                want = xf - A @ coef
            tol = _tol(dtype, x, n) * 4
            if got.shape != want.shape or not np.all(np.abs(got - want) <= tol):
                res.violation({"site": "kernels.detrend_1d", "symptom": "differs from the least-squares residual"}, case,
                              f"n={n} dtype={dtype}: max dev {float(np.max(np.abs(got - want))):.3e} tol {tol:.3e}")
                continue
            res.outcome("detrend/ok")
            if n > 2:
                res.nontrivial += 1


def _containers(shard, ctx, res, only):
    from sigpyproc.block import FilterbankBlock
    from sigpyproc.core import stats
    from sigpyproc.header import Header
    from sigpyproc.timeseries import TimeSeries

    def hdr(nchans, nsamples):
        return Header(filename="x.fil", data_type="filterbank", nchans=nchans, foff=-2.0, fch1=1400.0, nbits=32, tsamp=0.002, tstart=58000.0, nsamples=nsamples)

    rng = np.random.default_rng([ctx.seed, 99])
    for C, ns in ((4, 6), (6, 9), (5, 7)):
        A = rng.normal(0, 1, (C, ns)).astype(np.float32)
        blk = FilterbankBlock(A, hdr(C, ns))
        for ff in range(1, C + 1):
            for tf in range(1, ns + 1):
                for method in ("mean", "median"):
                    if only is not None and ["block", C, ns, ff, tf, method] != only:
                        continue
                    res.evaluations += 1
                    case = {"shard": shard, "inner": ["block", C, ns, ff, tf, method]}
                    try:
                        b = blk.downsample(ffactor=ff, tfactor=tf, filter_method=method)
                    except Exception as e:  # noqa: BLE001
                        res.violation({"site": "FilterbankBlock.downsample", "symptom": f"raised {type(e).__name__}"}, case, repr(e))
                        continue
                    n1, n2 = C // ff, ns // tf
                    g = A.astype(np.float64)[: n1 * ff, : n2 * tf].reshape(n1, ff, n2, tf)
                    want = g.mean(axis=(1, 3)) if method == "mean" else np.median(g, axis=(1, 3))
                    if b.data.shape != want.shape or not np.all(np.abs(b.data - want) <= 1e-5) or b.header.nsamples != n2 or b.header.nchans != n1 \
                            or abs(b.header.tsamp - 0.002 * tf) > 1e-15 or abs(b.header.foff + 2.0 * ff) > 1e-12:
                        res.violation({"site": "FilterbankBlock.downsample", "symptom": "data or header differ from the block mean/median"}, case,
                                      f"C={C} ns={ns} ff={ff} tf={tf}: shape {b.data.shape} vs {want.shape}; hdr nsamples={b.header.nsamples} nchans={b.header.nchans} tsamp={b.header.tsamp}")
                        continue
                    res.outcome("block_downsample/ok")
                    if ff * tf > 1:
                        res.nontrivial += 1
    for n in range(1, shard["nmax"] + 1):
        x = _series(n, "float32", ctx.seed)
        ts = TimeSeries(x, hdr(1, n))
        for f in range(1, n + 1):
            for method in ("mean", "median"):
                if only is not None and ["ts", n, f, method] != only:
                    continue
                res.evaluations += 1
                case = {"shard": shard, "inner": ["ts", n, f, method]}
                try:
                    d = ts.downsample(f, filter_method=method)
                except Exception as e:  # noqa: BLE001
                    res.violation({"site": "TimeSeries.downsample", "symptom": f"raised {type(e).__name__}"}, case, repr(e))
                    continue
                m = n // f
                grp = x.astype(np.float64)[: m * f].reshape(m, f)
                want = grp.mean(1) if method == "mean" else np.median(grp, axis=1)
                if d.data.shape != (m,) or not np.all(np.abs(d.data - want) <= _tol("float32", x, f)) or d.header.nsamples != m or abs(d.header.tsamp - 0.002 * f) > 1e-15:
                    res.violation({"site": "TimeSeries.downsample", "symptom": "data or header differ from the group mean/median"}, case,
                                  f"n={n} factor={f}: got {np.asarray(d.data).tolist()} want {want.tolist()} tsamp={d.header.tsamp}")
                    continue
                res.outcome("ts_downsample/ok")
                if f > 1:
                    res.nontrivial += 1
        for wbins in (1, 2, 3, n, 2 * n + 1):
            for method in ("mean", "median"):
                if only is not None and ["deredden", n, wbins, method] != only:
                    continue
                res.evaluations += 1
                case = {"shard": shard, "inner": ["deredden", n, wbins, method]}
                try:
                    d = ts.deredden(method=method, window=wbins * 0.002)
                    filt = stats.running_filter(x, wbins, method=method)
                except Exception as e:  # noqa: BLE001
                    res.violation({"site": "TimeSeries.deredden", "symptom": f"raised {type(e).__name__}"}, case, repr(e))
                    continue
                want = x.astype(np.float64) - np.asarray(filt, dtype=np.float64)
                if d.data.shape != (n,) or not np.all(np.abs(d.data - want) <= _tol("float32", x, wbins)):
                    res.violation({"site": "TimeSeries.deredden", "symptom": "differs from input minus running filter"}, case,
                                  f"n={n} window={wbins} bins: got {np.asarray(d.data).tolist()} want {want.tolist()}")
                    continue
                res.outcome("deredden/ok")
                res.nontrivial += 1
