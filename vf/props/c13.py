"""C13 - matched-filter S/N is the normalised template correlation and its argmax.

Engine A: data length (FFT-good or not) x template kind x bank; every response value against a
float64 inner product, argmax consistency, affine invariance, recovery of a noiseless boxcar at
every position.
"""
from __future__ import annotations

import numpy as np

PROP = "C13"
LEVEL = "exploration"
RULE = (
    "every data length n in 32..135 (quick) / 32..300 (thorough) x kind in {boxcar, gaussian, lorentzian} x bank (nbins_max in {4,8,16} x "
    "spacing in {1.5,2}) that fits: (a) every response convs[k,t] (all templates, all bins) == <z, m_k,t> in float64; (b) snr/peak_bin/"
    "best_temp == max/argmax of convs; (c) invariance under x -> a*x+b for 6 maps and 3 maps whose baseline is 1e5..1e6 times the noise; (a,b) again at lengths 8209 and 10007 (thorough: up to 65537) against a float64 FFT evaluation of the same sums; (d) for lengths in a sub-grid, a noiseless boxcar of "
    "every bank width at EVERY start bin 0..n-1 (wrapping) is recovered at its start bin with its width, and a noiseless gaussian / "
    "lorentzian pulse of every bank width (built from the formula) at every third bin is recovered at its peak bin with its width. Non-trivial = response sets at "
    "lengths that are not FFT-good sizes, argmax cases whose best template is not the first, every affine map, every direct kernel call with "
    "an unsorted bank, and recovery cases whose pulse touches or wraps around the array edge"
)
SCALE_LANE = 'data lengths 8209 and 10007 (thorough up to 65537) x 3 kinds x 2 banks against a float64 FFT evaluation of the defining sums'
ASSUMPTIONS = [
    "z is the library's own standardised data (MatchedFilter.zscores.data); the template definition (zero-padded to n, zero mean, unit L2 norm, reference bin rolled to t) is evaluated independently in float64",
    "tolerance 32*eps32*log2(n)*||z||_2 per response (float32 FFT rounding); exact ties of the maximum are excluded",
    "banks whose largest template does not fit the data (library raises ValueError) are out of scope and counted",
    "the boxcar bank is stated independently as the ladder 1, max(w+1, floor(spacing*w)), ... up to and including nbins_max (the documented meaning of nbins_max)",
]
REQUIRED_OUTCOMES = ["responses/ok", "responses/non_good_length", "argmax/ok", "affine/ok", "boxcar_recovery/ok", "peak_recovery/ok", "responses/long_ok", "affine/large_baseline_ok", "model/ok"]

EPS32 = float(np.finfo(np.float32).eps)
KINDS = ["boxcar", "gaussian", "lorentzian"]
BANKS = [(4, 1.5), (4, 2.0), (8, 1.5), (8, 2.0), (16, 1.5), (16, 2.0)]


def bounds(tier: str) -> dict:
    return {"lengths": [32, 135] if tier == "quick" else [32, 300], "kinds": KINDS, "banks": BANKS,
            "recovery_lengths": [33, 45, 64, 97] if tier == "quick" else [33, 45, 64, 97, 128, 131, 200, 243]}


def shards(tier: str, seed: int) -> list:
    b = bounds(tier)
    out = []
    lo, hi = b["lengths"]
    step = 4
    for a in range(lo, hi + 1, step):
        out.append({"kind": "responses", "lo": a, "hi": min(hi, a + step - 1)})
    # short data (4..31 bins): banks whose widest template still fits must be searched, not refused
    for a in range(4, lo, 7):
        out.append({"kind": "responses", "lo": a, "hi": min(lo - 1, a + 6)})
    for n in b["recovery_lengths"]:
        out.append({"kind": "recovery", "n": n})
    # scale lane: data lengths beyond 8192 bins that are not FFT-friendly (a fast path or padding chosen above a size would show here)
    for n in ((8209, 10007) if tier == "quick" else (4099, 8209, 10007, 16411, 20011, 65537)):
        out.append({"kind": "long", "n": n})
    return out


def _model(temp, n, t):
    """Template zero-padded to n, zero mean, unit norm, reference bin at t (float64)."""
    p = np.zeros(n)
    p[: temp.data.size] = np.asarray(temp.data, dtype=np.float64)
    p = p - p.mean()
    nrm = np.sqrt((p**2).sum())
    if nrm > 0:
        p = p / nrm
    return np.roll(p, t - temp.ref_bin)


def _data(n, seed, variant=0):
    rng = np.random.default_rng([seed, n, variant])
    x = rng.normal(0, 1, n)
    p = int(rng.integers(0, n))
    w = int(rng.integers(1, 9))
    idx = (p + np.arange(w)) % n
    x[idx] += 6.0 / np.sqrt(w)
    return x.astype(np.float32)


def run_shard(shard: dict, ctx, res, only=None) -> None:
    if shard["kind"] == "responses":
        _responses(shard, ctx, res, only)
    elif shard["kind"] == "long":
        _long(shard, ctx, res, only)
    else:
        _recovery(shard, ctx, res, only)


def _ref_fft(bank, z, n):
    """<z, roll(m_k, t)> for all t through a float64 FFT of length n (circular cross-correlation); checked against the direct sums below."""
    Z = np.fft.fft(z)
    return np.stack([np.fft.ifft(Z * np.conj(np.fft.fft(_model(t, n, 0)))).real for t in bank])


def _long(shard, ctx, res, only):
    from sigpyproc.core.filters import MatchedFilter

    n = shard["n"]
    x = _data(n, ctx.seed)
    # the FFT reference is first validated against the direct sums on a short array
    xs = _data(45, ctx.seed)
    mfs = MatchedFilter(xs, temp_kind="gaussian", nbins_max=8, spacing_factor=1.5)
    zs = np.asarray(mfs.zscores.data, dtype=np.float64)
    idx = (np.arange(45)[None, :] - np.arange(45)[:, None]) % 45
    direct = np.stack([(_model(t, 45, 0)[idx] * zs[None, :]).sum(1) for t in mfs.temp_bank])
    if not np.allclose(_ref_fft(mfs.temp_bank, zs, 45), direct, rtol=0, atol=1e-10):
        res.evaluations += 1
        res.violation({"site": "harness", "symptom": "FFT reference != direct sums"}, {"shard": shard, "inner": None}, "")
        return
    for kind in KINDS:
        for nbmax, spacing in ((16, 1.5), (8, 2.0)):
            if only is not None and [kind, nbmax, spacing] != only:
                continue
            case = {"shard": shard, "inner": [kind, nbmax, spacing]}
            res.evaluations += 1
            try:
                mf = MatchedFilter(x, temp_kind=kind, nbins_max=nbmax, spacing_factor=spacing)
            except Exception as e:  # noqa: BLE001
                res.violation({"site": "MatchedFilter", "symptom": f"raised {type(e).__name__}", "good_length": False}, case, f"n={n}: {e!r}")
                continue
            z = np.asarray(mf.zscores.data, dtype=np.float64)
            convs = np.asarray(mf.convs, dtype=np.float64)
            ref = _ref_fft(mf.temp_bank, z, n)
            lim = 32 * EPS32 * np.log2(n) * max(float(np.linalg.norm(z)), 1e-30)
            dev = float(np.max(np.abs(convs - ref))) if convs.shape == ref.shape else float("inf")
            res.maximum("response_dev_over_limit_long", dev / lim)
            if not (dev <= lim):
                res.violation({"site": "MatchedFilter.convs", "symptom": "response differs from the normalised template correlation", "good_length": False}, case,
                              f"n={n} kind={kind}: max dev {dev:.3e}, limit {lim:.3e}")
                continue
            k, t = np.unravel_index(int(np.argmax(np.asarray(mf.convs))), mf.convs.shape)
            if mf.peak_bin != t or mf.best_temp is not mf.temp_bank[k] or float(mf.snr) != float(np.asarray(mf.convs)[k, t]):
                res.violation({"site": "MatchedFilter", "symptom": "snr/peak_bin/best_temp are not the maximum of the responses"}, case, f"n={n}")
                continue
            res.outcome("responses/long_ok")
            res.nontrivial += 1


def _responses(shard, ctx, res, only):
    from sigpyproc.core import kernels
    from sigpyproc.core.filters import MatchedFilter

    for n in range(shard["lo"], shard["hi"] + 1):
        good = int(kernels.nb_fft_good_size(n, True)) == n
        x = _data(n, ctx.seed)
        for kind in KINDS:
            for nbmax, spacing in BANKS:
                if only is not None and [n, kind, nbmax, spacing] != only:
                    continue
                case = {"shard": shard, "inner": [n, kind, nbmax, spacing]}
                std = [("median", "iqr"), ("mean", "std"), ("median", "mad"), ("norm", "norm")][(n + nbmax) % 4] if kind == "gaussian" else ("median", "iqr")
                try:
                    mf = MatchedFilter(x, loc_method=std[0], scale_method=std[1], temp_kind=kind, nbins_max=nbmax, spacing_factor=spacing)
                except ValueError as e:
                    if "larger than the data" in str(e) or "nbins_max" in str(e):
                        if kind == "boxcar" and max(_ladder(nbmax, spacing)) <= n:
                            res.evaluations += 1
                            res.violation({"site": "MatchedFilter", "symptom": "refused a bank whose widest template fits the data"}, case,
                                          f"n={n} nbins_max={nbmax} spacing={spacing}: widest boxcar {max(_ladder(nbmax, spacing))}: {e!r}")
                            continue
                        res.skip("bank_does_not_fit")
                        continue
                    res.evaluations += 1
                    res.violation({"site": "MatchedFilter", "symptom": "raised ValueError", "good_length": good}, case, f"n={n}: {e!r}")
                    continue
                except Exception as e:  # noqa: BLE001
                    res.evaluations += 1
                    res.violation({"site": "MatchedFilter", "symptom": f"raised {type(e).__name__}", "good_length": good}, case, f"n={n}: {e!r}")
                    continue
                res.evaluations += 1
                z = np.asarray(mf.zscores.data, dtype=np.float64)
                convs = np.asarray(mf.convs, dtype=np.float64)
                bank = mf.temp_bank
                if convs.shape != (len(bank), n):
                    res.violation({"site": "MatchedFilter.convs", "symptom": "wrong shape"}, case, f"{convs.shape}")
                    continue
                lim = 32 * EPS32 * np.log2(n) * max(float(np.linalg.norm(z)), 1e-30)
                ref = np.empty_like(convs)
                for k, temp in enumerate(bank):
                    m0 = _model(temp, n, 0)
                    # <z, roll(m0, t)> for all t
                    idx = (np.arange(n)[None, :] - np.arange(n)[:, None]) % n
                    ref[k] = (m0[idx] * z[None, :]).sum(1)
                dev = float(np.max(np.abs(convs - ref)))
                res.maximum("response_dev_over_limit" + ("" if good else "_non_good"), dev / lim)
                if not np.all(np.isfinite(convs)) or not (dev <= lim):
                    k, t = np.unravel_index(int(np.argmax(np.abs(convs - ref))), convs.shape)
                    res.violation({"site": "MatchedFilter.convs", "symptom": "response differs from the normalised template correlation", "good_length": good}, case,
                                  f"n={n} kind={kind} template {k} (width {bank[k].width}) bin {t}: got {convs[k, t]:.6f} want {ref[k, t]:.6f} (max dev {dev:.3e}, limit {lim:.3e})")
                    continue
                res.outcome("responses/ok")
                if not good:
                    res.outcome("responses/non_good_length")
                    res.nontrivial += 1
                # the template objects handed back to the user: get_model(t, n) is the same zero-padded, zero-mean, unit-norm template with its
                # reference bin at t (wrapping around the array edge), so <z, get_model(t)> is the response at t
                if (nbmax, spacing) == (8, 1.5):
                    res.evaluations += 1
                    badm = None
                    for k, temp in enumerate(bank):
                        for t in sorted({0, 1, max(0, temp.ref_bin - 1), n - int(temp.data.size), n - 2, n - 1, n // 2}):
                            if not 0 <= t < n:
                                continue
                            gm = np.asarray(temp.get_model(t, n), dtype=np.float64)
                            if gm.shape != (n,) or not np.allclose(gm, _model(temp, n, t), rtol=0, atol=1e-5):
                                badm = (k, t)
                                break
                        if badm:
                            break
                    if badm:
                        res.violation({"site": "Template.get_model", "symptom": "model differs from the template the response was computed with"}, case,
                                      f"n={n} kind={kind} template {badm[0]} (width {bank[badm[0]].width}) at bin {badm[1]}")
                        continue
                    res.outcome("model/ok")
                # (b) argmax
                res.evaluations += 1
                flat = np.asarray(mf.convs).ravel()
                top = np.sort(flat)[-2:]
                if top[1] == top[0]:
                    res.skip("exact_tie_of_maximum")
                else:
                    k, t = np.unravel_index(int(np.argmax(np.asarray(mf.convs))), mf.convs.shape)
                    if mf.peak_bin != t or mf.best_temp is not bank[k] or float(mf.snr) != float(np.asarray(mf.convs)[k, t]):
                        res.violation({"site": "MatchedFilter", "symptom": "snr/peak_bin/best_temp are not the maximum of the responses"}, case,
                                      f"reported snr={mf.snr} bin={mf.peak_bin} width={mf.best_temp.width}; argmax template {k} bin {t} value {np.asarray(mf.convs)[k, t]}")
                        continue
                    res.outcome("argmax/ok")
                    if k > 0:
                        res.nontrivial += 1
                # (c) affine invariance (one bank per kind and length is enough: the map acts on the data)
                if (nbmax, spacing) != (8, 1.5):
                    continue
                for a, b in ((0.5, -3.5), (3.0, 120.0), (1e3, -7e3), (0.5, 20.0), (3.0, -21.0), (1e3, 4e4)):
                    res.evaluations += 1
                    c2 = {"shard": shard, "inner": [n, kind, nbmax, spacing]}
                    try:
                        if std == ("norm", "norm"):
                            break  # no standardisation requested: invariance is not expected
                        mf2 = MatchedFilter((np.float32(a) * x + np.float32(b)).astype(np.float32), loc_method=std[0], scale_method=std[1], temp_kind=kind, nbins_max=nbmax, spacing_factor=spacing)
                    except Exception as e:  # noqa: BLE001
                        res.violation({"site": "MatchedFilter", "symptom": f"raised {type(e).__name__} on affine-mapped data"}, c2, repr(e))
                        continue
                    d2 = float(np.max(np.abs(np.asarray(mf2.convs, dtype=np.float64) - convs)))
                    scale = max(1.0, float(np.max(np.abs(convs))))
                    res.maximum("affine_dev", d2 / scale)
                    gap = float(top[1] - top[0])
                    same = mf2.peak_bin == mf.peak_bin and mf2.best_temp.width == mf.best_temp.width
                    if d2 > 1e-4 * scale * 10 or (not same and gap > 1e-3 * scale):
                        res.violation({"site": "MatchedFilter", "symptom": "result changes under a*x+b"}, c2,
                                      f"n={n} kind={kind} a={a} b={b}: max response change {d2:.3e}; peak {mf.peak_bin}->{mf2.peak_bin} width {mf.best_temp.width}->{mf2.best_temp.width}")
                        continue
                    res.outcome("affine/ok")
                    res.nontrivial += 1
                # baselines 1e5..1e6 times the noise: the float32 data are first quantised at the baseline, the reference is the filter of the
                # de-quantised data, so only the standardisation (not float32 resolution) is under test
                for a, b in ((3.0, 2e6), (3e-3, 400.0), (1.0, -3e5)):
                    if std == ("norm", "norm"):
                        break
                    res.evaluations += 1
                    c2 = {"shard": shard, "inner": [n, kind, nbmax, spacing]}
                    y = (np.float32(a) * x + np.float32(b)).astype(np.float32)
                    xq = ((y.astype(np.float64) - b) / a).astype(np.float32)
                    try:
                        mfy = MatchedFilter(y, loc_method=std[0], scale_method=std[1], temp_kind=kind, nbins_max=nbmax, spacing_factor=spacing)
                        mfq = MatchedFilter(xq, loc_method=std[0], scale_method=std[1], temp_kind=kind, nbins_max=nbmax, spacing_factor=spacing)
                    except Exception as e:  # noqa: BLE001
                        res.violation({"site": "MatchedFilter", "symptom": f"raised {type(e).__name__} on data with a large baseline"}, c2, repr(e))
                        continue
                    cq = np.asarray(mfq.convs, dtype=np.float64)
                    d2 = float(np.max(np.abs(np.asarray(mfy.convs, dtype=np.float64) - cq)))
                    scale = max(1.0, float(np.max(np.abs(cq))))
                    res.maximum("affine_large_baseline_dev", d2 / scale)
                    if not (d2 <= 1e-2 * scale):
                        res.violation({"site": "MatchedFilter", "symptom": "result changes under a*x+b", "large_baseline": True}, c2,
                                      f"n={n} kind={kind} a={a} b={b}: max response change {d2:.3e} (snr {float(mfq.snr):.3f} -> {float(mfy.snr):.3f})")
                        continue
                    res.outcome("affine/large_baseline_ok")
    # the kernel itself with banks in decreasing and mixed width order (MatchedFilter only builds increasing ones)
    from numba import typed

    from sigpyproc.core.filters import Template

    for n in range(shard["lo"], shard["hi"] + 1):
        z = _data(n, ctx.seed, 1)
        z = ((z - z.mean()) / z.std()).astype(np.float32)
        for kind in KINDS:
            for oname, widths in (("decreasing", [6, 3, 1]), ("mixed", [2, 7, 1, 4])):
                if only is not None and [n, kind, "kernel", oname] != only:
                    continue
                res.evaluations += 1
                case = {"shard": shard, "inner": [n, kind, "kernel", oname]}
                try:
                    bank = [getattr(Template, f"gen_{kind}")(w) for w in widths]
                    if max(t.data.size for t in bank) > n:
                        res.skip("bank_does_not_fit")
                        continue
                    convs = np.asarray(kernels.convolve_templates(z, typed.List([np.asarray(t.data, dtype=np.float32) for t in bank]), typed.List([t.ref_bin for t in bank])), dtype=np.float64)
                except Exception as e:  # noqa: BLE001
                    res.violation({"site": "kernels.convolve_templates", "symptom": f"raised {type(e).__name__}"}, case, repr(e))
                    continue
                zz = z.astype(np.float64)
                lim = 32 * EPS32 * np.log2(n) * float(np.linalg.norm(zz))
                idx = (np.arange(n)[None, :] - np.arange(n)[:, None]) % n
                ref = np.stack([(_model(t, n, 0)[idx] * zz[None, :]).sum(1) for t in bank])
                dev = float(np.max(np.abs(convs - ref)))
                if convs.shape != ref.shape or not (dev <= lim):
                    k, t = np.unravel_index(int(np.argmax(np.abs(convs - ref))), ref.shape)
                    res.violation({"site": "kernels.convolve_templates", "symptom": "response differs from the normalised template correlation", "bank_order": oname}, case,
                                  f"n={n} kind={kind} widths {widths}: template {k} bin {t}: got {convs[k, t]:.6f} want {ref[k, t]:.6f}")
                    continue
                res.outcome("responses/ok")
                res.nontrivial += 1
    res.sample({"shard": shard, "inner": [shard["lo"], "gaussian", 8, 1.5]}, cap=1)


def _ladder(nbmax, spacing):
    """Independent statement of the boxcar bank: 1, then max(w+1, floor(spacing*w)) while <= nbins_max (inclusive)."""
    ws = [1]
    while True:
        nxt = int(max(ws[-1] + 1, spacing * ws[-1]))
        if nxt > nbmax:
            return ws
        ws.append(nxt)


def _recovery(shard, ctx, res, only):
    from sigpyproc.core.filters import MatchedFilter

    n = shard["n"]
    if only is None:
        for nbmax in range(1, 41):
            for spacing in (1.2, 1.5, 2.0, 3.0):
                res.evaluations += 1
                got = [int(w) for w in MatchedFilter.get_box_width_spacing(nbmax, spacing)]
                if got != _ladder(nbmax, spacing):
                    res.violation({"site": "MatchedFilter.get_box_width_spacing", "symptom": "boxcar bank differs from the width ladder up to and including nbins_max"},
                                  {"shard": shard, "inner": [nbmax, spacing, 0, 0]}, f"nbins_max={nbmax} spacing={spacing}: {got} vs {_ladder(nbmax, spacing)}")
                else:
                    res.outcome("bank_ladder/ok")
    for nbmax, spacing in BANKS:
        widths = _ladder(nbmax, spacing)
        for w in widths:
            for p in range(n):
                if only is not None and [nbmax, spacing, w, p] != only:
                    continue
                res.evaluations += 1
                case = {"shard": shard, "inner": [nbmax, spacing, w, p]}
                x = np.zeros(n, dtype=np.float32)
                x[(p + np.arange(w)) % n] = 1.0
                try:
                    mf = MatchedFilter(x, temp_kind="boxcar", nbins_max=nbmax, spacing_factor=spacing)
                except Exception as e:  # noqa: BLE001
                    res.violation({"site": "MatchedFilter", "symptom": f"raised {type(e).__name__}"}, case, repr(e))
                    continue
                if mf.peak_bin != p or int(mf.best_temp.width) != w:
                    res.violation({"site": "MatchedFilter", "symptom": "noiseless boxcar not recovered at its start bin with its width",
                                   "wraps": bool(p + w > n)}, case,
                                  f"n={n} width {w} at bin {p}: reported bin {mf.peak_bin} width {mf.best_temp.width} snr {mf.snr}")
                    continue
                res.outcome("boxcar_recovery/ok")
                if p + w > n or p == 0:
                    res.nontrivial += 1
    # peak-referenced templates: a noiseless gaussian / lorentzian pulse built from the formula (not from the library's
    # generators) and centred at p must be reported with peak_bin == p and its own width
    from astropy.stats import gaussian_fwhm_to_sigma

    for kind in ("gaussian", "lorentzian"):
        for nbmax, spacing in ((8, 2.0), (16, 2.0)):
            npts = int(np.ceil(np.log(nbmax) / np.log(spacing))) + 1
            widths = np.geomspace(1, nbmax, npts)
            for w in widths[1:]:
                for p in range(0, n, 3):
                    if only is not None and [kind, nbmax, spacing, float(w), p] != only:
                        continue
                    if kind == "gaussian":
                        sd = gaussian_fwhm_to_sigma * w
                        size = int(np.ceil(3.5 * sd))
                        xs = np.arange(-size, size + 1)
                        prof = np.exp(-0.5 * xs**2 / sd**2)
                    else:
                        gam = w / 2
                        size = int(np.ceil(3.5 * gam))
                        xs = np.arange(-size, size + 1)
                        prof = gam**2 / (xs**2 + gam**2)
                    if prof.size > n:
                        res.skip("bank_does_not_fit")
                        continue
                    res.evaluations += 1
                    case = {"shard": shard, "inner": [kind, nbmax, spacing, float(w), p]}
                    x = np.zeros(n)
                    x[(p + xs) % n] = prof
                    try:
                        mf = MatchedFilter(x.astype(np.float32), loc_method="norm", scale_method="norm", temp_kind=kind, nbins_max=nbmax, spacing_factor=spacing)
                    except ValueError as e:
                        if "larger than the data" in str(e):
                            res.skip("bank_does_not_fit")
                            continue
                        res.violation({"site": "MatchedFilter", "symptom": "raised ValueError"}, case, repr(e))
                        continue
                    except Exception as e:  # noqa: BLE001
                        res.violation({"site": "MatchedFilter", "symptom": f"raised {type(e).__name__}"}, case, repr(e))
                        continue
                    if mf.peak_bin != p or abs(float(mf.best_temp.width) - float(w)) > 1e-6 * w:
                        res.violation({"site": "MatchedFilter", "symptom": "noiseless peak-referenced pulse not recovered at its peak bin with its width", "kind": kind}, case,
                                      f"n={n} {kind} width {w:.3f} centred at {p}: reported bin {mf.peak_bin} width {mf.best_temp.width}")
                        continue
                    res.outcome("peak_recovery/ok")
                    if p - size < 0 or p + size >= n:
                        res.nontrivial += 1
    res.sample({"shard": shard, "inner": [8, 1.5, 3, n - 1]}, cap=1)
