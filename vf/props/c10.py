"""C10 - online channel statistics do not depend on how the stream is chunked or merged.

Engine B (explicit-state): BFS over all compositions of the stream into consecutive chunks on a
real ChannelStats accumulator, states keyed by (samples consumed, moments bytes) and merged when
bit-identical; terminal states checked against two-pass float64. Plus all merge trees of <= 3
accumulators over every split point.
"""
from __future__ import annotations

import copy
from collections import deque

import numpy as np

PROP = "C10"
LEVEL = "model_checking"
RULE = (
    "per (mode, nchans, data class): BFS from the empty accumulator; transition = push_data(next k samples) for every k in "
    "1..remaining (all 2^(n-1) compositions of n are paths of this graph); state key = (position, moments.tobytes()), identical "
    "states merged; every terminal state compared with two-pass float64 (count/min/max exact, moments within 50*eps32*n). Merges: "
    "every split point, each side fed whole and sample-by-sample, a+b and b+a, every 3-way split as (a+b)+c and a+(b+c), and (a+b) followed by pushing the rest of the stream into the sum. "
    "Non-trivial = terminal states reached through >= 2 chunks, and every merge"
)
SCALE_LANE = 'bands of 65, 130 and 257 channels (BFS over all compositions of 7 (10) samples, all merges of 6 (8)); merges of 300 000, 3 000 000 and 5 000 000 samples'
ASSUMPTIONS = [
    "tolerance 50*eps32*n relative to the channel's value scale (mean), to the variance (var) and +1e-3 absolute on skewness/kurtosis",
    "skewness/kurtosis are compared only on channels with non-zero variance; constant channels must report var == skew == 0 exactly",
    "kernels run with one numba thread here; thread independence is C19's subject",
]
REQUIRED_OUTCOMES = ["terminal/ok", "terminal/constant_channel_ok", "merge2/ok", "merge3/ok", "merge_then_push/ok"]

EPS32 = float(np.finfo(np.float32).eps)
CLASSES = ["constant", "onebit", "eightbit", "wide", "outlier", "mixed_const", "small_amplitude"]


def bounds(tier: str) -> dict:
    return {"n": 12 if tier == "quick" else 15, "nchans": [1, 3], "wide_band_nchans": [65, 130, 257], "modes": ["basic", "full"], "classes": CLASSES,
            "merge_n": 10 if tier == "quick" else 14}


def shards(tier: str, seed: int) -> list:
    b = bounds(tier)
    out = []
    for mode in b["modes"]:
        for C in b["nchans"]:
            for cl in b["classes"]:
                out.append({"kind": "chunks", "mode": mode, "C": C, "cls": cl, "n": b["n"]})
                out.append({"kind": "merge", "mode": mode, "C": C, "cls": cl, "n": b["merge_n"]})
        # wide bands (more channels than any tile or vector width is likely to be): shorter streams, value classes that do not depend on C
        for C in (65, 130, 257):
            for cl in ("eightbit", "wide", "onebit"):
                out.append({"kind": "chunks", "mode": mode, "C": C, "cls": cl, "n": 7 if tier == "quick" else 10})
                out.append({"kind": "merge", "mode": mode, "C": C, "cls": cl, "n": 6 if tier == "quick" else 8})
    return out


def _data(cls: str, n: int, C: int, seed: int) -> np.ndarray:
    rng = np.random.default_rng([seed, CLASSES.index(cls), n, C])
    if cls == "constant":
        X = np.tile(np.array([3.0, -7.5, 0.0])[:C], (n, 1))
    elif cls == "onebit":
        X = rng.integers(0, 2, size=(n, C)).astype(np.float64)
        X[0, :] = 0
        X[1, :] = 1
    elif cls == "eightbit":
        X = rng.integers(0, 256, size=(n, C)).astype(np.float64)
    elif cls == "wide":
        X = rng.uniform(-1e4, 1e4, size=(n, C))
    elif cls == "outlier":
        X = rng.normal(0, 1, size=(n, C))
        X[n // 2, :] = 1e6
    elif cls == "small_amplitude":
        # skewed data of tiny amplitude (std ~1e-5, variance ~1e-10): the moments are scale free, nothing may treat this as "constant"
        X = 1e-5 * rng.gamma(2.0, 1.0, size=(n, C))
    elif cls == "mixed_const":
        X = rng.normal(100, 15, size=(n, C))
        X[:, C - 1] = 42.0
    else:
        raise AssertionError(cls)
    return X.astype(np.float32)


def _ref(X):
    Y = X.astype(np.float64)
    m = Y.mean(0)
    d = Y - m
    v = (d**2).mean(0)
    with np.errstate(divide="ignore", invalid="ignore"):
        sk = (d**3).mean(0) / v**1.5
        ku = (d**4).mean(0) / v**2 - 3
    return Y.shape[0], Y.min(0), Y.max(0), m, v, sk, ku


def _verify(cs, X, mode, res, case, site) -> bool:
    n, mn, mx, m, v, sk, ku = _ref(X)
    cnt = np.asarray(cs.moments["count"])
    gmn, gmx, gm, gv = (np.asarray(a, dtype=np.float64) for a in (cs.minima, cs.maxima, cs.mean, cs.var))
    if not np.all(cnt == n) or not np.array_equal(gmn, mn) or not np.array_equal(gmx, mx):
        res.violation({"site": site, "symptom": "count/min/max differ", "mode": mode}, case,
                      f"count {cnt.tolist()} want {n}; min {gmn.tolist()} want {mn.tolist()}; max {gmx.tolist()} want {mx.tolist()}")
        return False
    vals = [gm, gv, np.asarray(cs.std, dtype=np.float64)]
    if mode == "full":
        vals += [np.asarray(cs.skew, dtype=np.float64), np.asarray(cs.kurtosis, dtype=np.float64)]
    if not all(np.all(np.isfinite(a)) for a in vals):
        res.violation({"site": site, "symptom": "NaN or infinite statistic", "mode": mode}, case, f"{[a.tolist() for a in vals]}")
        return False
    tol = 50 * EPS32 * n
    scale = np.maximum(np.abs(X.astype(np.float64)).max(0), 1e-30)
    const = (X == X[0]).all(0)
    dm = np.max(np.abs(gm - m) / scale)
    dv = np.max(np.where(const, 0.0, np.abs(gv - v) / np.where(v > 0, v, 1.0)))
    res.maximum("mean_dev_over_tol", dm / tol)
    res.maximum("var_dev_over_tol", dv / tol)
    if not (dm <= tol and dv <= tol):
        res.violation({"site": site, "symptom": "mean/variance differ from two-pass float64", "mode": mode}, case,
                      f"mean {gm.tolist()} want {m.tolist()}; var {gv.tolist()} want {v.tolist()}")
        return False
    if const.any():
        bad = np.any(gv[const] != 0) or (mode == "full" and np.any(np.asarray(cs.skew)[const] != 0))
        if bad:
            res.violation({"site": site, "symptom": "constant channel reports non-zero variance/skewness", "mode": mode}, case,
                          f"var {gv.tolist()} skew {np.asarray(cs.skew).tolist() if mode == 'full' else None}")
            return False
        res.outcome("terminal/constant_channel_ok")
    if mode == "full" and (~const).any() and n > 2:
        gs, gk = vals[3][~const], vals[4][~const]
        ds = np.max(np.abs(gs - sk[~const]) / (1e-3 + tol * (1 + np.abs(sk[~const]))))
        dk = np.max(np.abs(gk - ku[~const]) / (1e-3 + tol * (3 + np.abs(ku[~const]))))
        res.maximum("skew_dev_over_tol", ds)
        res.maximum("kurt_dev_over_tol", dk)
        if not (ds <= 1 and dk <= 1):
            res.violation({"site": site, "symptom": "skewness/kurtosis differ from two-pass float64", "mode": mode}, case,
                          f"skew {vals[3].tolist()} want {sk.tolist()}; kurt {vals[4].tolist()} want {ku.tolist()}")
            return False
    return True


def _push(cs, X, lo, hi, mode, first_index):
    cs.push_data(np.ascontiguousarray(X[lo:hi]).ravel(), first_index, mode=mode)


def run_shard(shard: dict, ctx, res, only=None) -> None:
    from sigpyproc.core.stats import ChannelStats

    mode, C, cls, n = shard["mode"], shard["C"], shard["cls"], shard["n"]
    X = _data(cls, n, C, ctx.seed)
    if shard["kind"] == "merge":
        return _merge(shard, X, ChannelStats, res, only)
    if only is not None:
        cs = ChannelStats(C, n)
        pos = 0
        for k in only:
            _push(cs, X, pos, pos + k, mode, pos)
            pos += k
        res.evaluations += 1
        _verify(cs, X, mode, res, {"shard": shard, "inner": only}, "ChannelStats.push_data")
        return
    root = ChannelStats(C, n)
    key0 = (0, root.moments.tobytes())
    seen = {key0: []}
    frontier = deque([(root, 0, [])])
    ntrans = 0
    nterm = 0
    first_term = None
    while frontier:
        cs, pos, hist = frontier.popleft()
        for k in range(1, n - pos + 1):
            nxt = copy.deepcopy(cs)
            try:
                _push(nxt, X, pos, pos + k, mode, pos)
            except Exception as e:  # noqa: BLE001
                res.violation({"site": "ChannelStats.push_data", "symptom": f"raised {type(e).__name__}", "mode": mode},
                              {"shard": shard, "inner": hist + [k]}, repr(e))
                continue
            ntrans += 1
            res.evaluations += 1
            key = (pos + k, nxt.moments.tobytes())
            if key in seen:
                continue
            seen[key] = hist + [k]
            if pos + k == n:
                nterm += 1
                case = {"shard": shard, "inner": hist + [k]}
                if _verify(nxt, X, mode, res, case, "ChannelStats.push_data"):
                    res.outcome("terminal/ok")
                    if len(hist) >= 1:
                        res.nontrivial += 1
                    # exact agreement of count/min/max between all terminal states
                    sig = (nxt.moments["count"].tobytes(), nxt.moments["min"].tobytes(), nxt.moments["max"].tobytes())
                    if first_term is None:
                        first_term = sig
                    elif sig != first_term:
                        res.violation({"site": "ChannelStats.push_data", "symptom": "count/min/max depend on the chunking", "mode": mode}, case, "")
            else:
                frontier.append((nxt, pos + k, hist + [k]))
    res.count("states", len(seen))
    res.count("transitions", ntrans)
    res.count("terminal_states", nterm)
    res.count("compositions_covered", 2 ** (n - 1))
    res.maximum("max_distinct_terminal_states", nterm)
    res.sample({"shard": shard, "example_composition": max(seen.values(), key=len), "distinct_terminal_states": nterm, "states": len(seen)}, cap=2)


def _merge(shard, X, ChannelStats, res, only):
    mode, C, n = shard["mode"], shard["C"], shard["n"]

    def acc(lo, hi, single):
        cs = ChannelStats(C, hi - lo)
        if single:
            for i in range(lo, hi):
                _push(cs, X, i, i + 1, mode, i - lo)
        else:
            _push(cs, X, lo, hi, mode, 0)
        return cs

    for s in range(1, n):
        for sa in (False, True):
            for sb in (False, True):
                for order in ("a+b", "b+a"):
                    inner = ["merge2", s, sa, sb, order]
                    if only is not None and inner != only:
                        continue
                    res.evaluations += 1
                    case = {"shard": shard, "inner": inner}
                    try:
                        a, b = acc(0, s, sa), acc(s, n, sb)
                        c = a + b if order == "a+b" else b + a
                    except Exception as e:  # noqa: BLE001
                        res.violation({"site": "ChannelStats.__add__", "symptom": f"raised {type(e).__name__}", "mode": mode}, case, repr(e))
                        continue
                    if _verify(c, X, mode, res, case, "ChannelStats.__add__"):
                        res.outcome("merge2/ok")
                        res.nontrivial += 1
    for s1 in range(1, n - 1):
        for s2 in range(s1 + 1, n):
            for tree in ("(a+b)+c", "a+(b+c)"):
                inner = ["merge3", s1, s2, tree]
                if only is not None and inner != only:
                    continue
                res.evaluations += 1
                case = {"shard": shard, "inner": inner}
                try:
                    a, b, c = acc(0, s1, False), acc(s1, s2, True), acc(s2, n, False)
                    t = (a + b) + c if tree == "(a+b)+c" else a + (b + c)
                except Exception as e:  # noqa: BLE001
                    res.violation({"site": "ChannelStats.__add__", "symptom": f"raised {type(e).__name__}", "mode": mode}, case, repr(e))
                    continue
                if _verify(t, X, mode, res, case, "ChannelStats.__add__"):
                    res.outcome("merge3/ok")
                    res.nontrivial += 1
    # a merged accumulator keeps accumulating: (a + b), then the rest of the stream pushed into the sum as a non-first chunk
    for s1 in range(1, n - 1):
        for s2 in range(s1 + 1, n):
            inner = ["merge_then_push", s1, s2]
            if only is not None and inner != only:
                continue
            res.evaluations += 1
            case = {"shard": shard, "inner": inner}
            try:
                t = acc(0, s1, False) + acc(s1, s2, s1 % 2 == 0)
                _push(t, X, s2, n, mode, s2)
            except Exception as e:  # noqa: BLE001
                res.violation({"site": "ChannelStats.__add__ then push_data", "symptom": f"raised {type(e).__name__}", "mode": mode}, case, repr(e))
                continue
            # the sum was declared with the sample count of its two operands, so the count-normalised statistics (variance and up) are not defined for
            # this use; count, extrema and mean are
            nref, mn, mx, m, *_ = _ref(X)
            cnt = np.asarray(t.moments["count"])
            gmn, gmx, gm = (np.asarray(a, dtype=np.float64) for a in (t.minima, t.maxima, t.mean))
            scale = np.maximum(np.abs(X.astype(np.float64)).max(0), 1e-30)
            if not np.all(cnt == nref) or not np.array_equal(gmn, mn) or not np.array_equal(gmx, mx) or not np.all(np.abs(gm - m) / scale <= 50 * EPS32 * nref):
                res.violation({"site": "ChannelStats.__add__ then push_data", "symptom": "count/min/max/mean differ after pushing into a merged accumulator", "mode": mode}, case,
                              f"count {cnt.tolist()} want {nref}; min {gmn.tolist()} want {mn.tolist()}; max {gmx.tolist()} want {mx.tolist()}; mean {gm.tolist()} want {m.tolist()}")
                continue
            res.outcome("merge_then_push/ok")
            res.nontrivial += 1
    # large accumulators (millions of samples per side): the merge formulas contain count**2 and count**3
    if C == 1 and shard["cls"] in ("wide", "eightbit"):
        for nbig, sbig in ((300_000, 100_000), (3_000_000, 1_500_000), (5_000_000, 1_000_000)):
            inner = ["merge_big", nbig, sbig]
            if only is not None and inner != only:
                continue
            res.evaluations += 1
            case = {"shard": shard, "inner": inner}
            rng = np.random.default_rng([7, nbig])
            xb = np.concatenate([rng.normal(10, 3, sbig), rng.normal(30, 5, nbig - sbig)]).astype(np.float32)
            try:
                a = ChannelStats(1, sbig)
                a.push_data(xb[:sbig].copy(), 0, mode=mode)
                b = ChannelStats(1, nbig - sbig)
                b.push_data(xb[sbig:].copy(), 0, mode=mode)
                c = a + b
            except Exception as e:  # noqa: BLE001
                res.violation({"site": "ChannelStats.__add__", "symptom": f"raised {type(e).__name__}", "mode": mode}, case, repr(e))
                continue
            Y = xb.astype(np.float64)
            m = Y.mean()
            d = Y - m
            v = (d**2).mean()
            bad = []
            if int(c.moments["count"][0]) != nbig or float(c.minima[0]) != float(xb.min()) or float(c.maxima[0]) != float(xb.max()):
                bad.append("count/min/max")
            if abs(float(c.mean[0]) - m) > 1e-3 * abs(m) or abs(float(c.var[0]) - v) > 1e-3 * v:
                bad.append(f"mean {float(c.mean[0])!r}/{m!r} var {float(c.var[0])!r}/{v!r}")
            if mode == "full":
                sk, ku = (d**3).mean() / v**1.5, (d**4).mean() / v**2 - 3
                if not np.isfinite(c.skew[0]) or abs(float(c.skew[0]) - sk) > 1e-2 or not np.isfinite(c.kurtosis[0]) or abs(float(c.kurtosis[0]) - ku) > 1e-2:
                    bad.append(f"skew {float(c.skew[0])!r}/{sk!r} kurtosis {float(c.kurtosis[0])!r}/{ku!r}")
            if bad:
                res.violation({"site": "ChannelStats.__add__", "symptom": "merged statistics of large accumulators differ from two-pass float64", "mode": mode}, case,
                              f"{nbig} samples split at {sbig}: " + "; ".join(bad))
                continue
            res.outcome("merge2/ok")
            res.nontrivial += 1
    res.count("transitions", 0)
    res.sample({"shard": shard, "example": ["merge3", 2, 5, "a+(b+c)"]}, cap=1)


def finalize(total, ctx) -> dict:
    st = int(total.counters.get("states", 0))
    tr = int(total.counters.get("transitions", 0))
    comp = int(total.counters.get("compositions_covered", 0))
    return {"states": st, "transitions": tr, "traces_validated_against_impl": tr,
            "compositions_covered": comp, "state_merge_ratio": round(tr / max(st, 1), 3),
            "explanation": "every transition is a real push_data call on a deep copy of the real accumulator; there is no separate model to drift"}
