"""C16 - RFI cleaning masks exactly the flagged channels and nothing else.

Engine A: (a) RFIMask over every statistics vector in {base, base+d, outlier}^8 x method x
threshold, plus frequency ranges and custom functions in every application order; (b) clean_rfi
end-to-end for every gulp and depth; (c) mask file round trip.
"""
from __future__ import annotations

import itertools

import numpy as np

from vf.core import fixtures as fx

PROP = "C16"
LEVEL = "exploration"
RULE = (
    "(a) all 3^8 = 6561 statistics vectors over {1.0, 1.25, 50.0} (used as variance; rolled/reversed copies as skewness/kurtosis) x method "
    "{mad, iqrm} x threshold {1,3,5}: stats_mask == independent float64 re-implementation of double-MAD / IQRM thresholding (also on bands of 64, 130 and 832 channels "
    "with a smooth bandpass and outlier blocks at 6 positions x 4 widths x 3 amplitudes); for a sub-grid "
    "of vectors x 6 frequency-range lists x 4 custom functions x all 6 application orders, and all 216 three-step histories over 6 steps "
    "(repeated kinds included): chan_mask == union of everything applied so far and grows monotonically; (b) clean_rfi for every gulp 1..N+1, depths {8,32,4,2,1}, default and explicit mask values: masked channels constant "
    "at the mask value in every sample, all other samples bit-identical; (c) to_file/from_file. Non-trivial = a mask with >= 1 and < all channels"
)
SCALE_LANE = 'bands of 64, 130 and 832 channels (thorough up to 4096): smooth bandpass with outlier blocks at 6 positions x 4 widths x 3 amplitudes x 2 methods x 3 thresholds'
ASSUMPTIONS = [
    "cases where some |z| is within 1e-4 (relative) of the threshold are skipped and counted (float32 z-scores in the library)",
    "channel centres are the library's float32 labels (Header.chan_freqs)",
    "sky position/angles are not part of the mask file format and are not compared",
]
REQUIRED_OUTCOMES = ["stats_mask/ok", "stats_mask/wide_ok", "union/ok", "clean/ok", "clean/default_value_ok", "clean/refused_leaves_no_state", "file/ok"]

VALS = [1.0, 1.25, 50.0]
NORM = 0.6744897501960817
NORM_AAD = float(np.sqrt(2 / np.pi))
IQR_NORM = 1.3489795003921634


def bounds(tier: str) -> dict:
    return {"vectors": 6561 if tier == "quick" else 6561 + 59049, "thresholds": [1, 3, 5], "methods": ["mad", "iqrm"], "clean_N": 16 if tier == "quick" else 24, "clean_C": 16}


def shards(tier: str, seed: int) -> list:
    out = []
    for first in range(3):
        for second in range(3):
            for third in range(3):
                out.append({"kind": "stats", "prefix": [first, second, third], "len": 8})
                if tier == "thorough":
                    # all 3^10 ten-channel vectors as well (the IQRM radius of 5 then spans exactly half the band)
                    out.append({"kind": "stats", "prefix": [first, second, third], "len": 10})
    out.append({"kind": "union"})
    # wide bands (64 .. 832 channels): structured bandpasses with blocks of outliers; a rule that depends on the number of channels would show here
    for L in ((64, 130, 832) if tier == "quick" else (59, 60, 64, 100, 130, 256, 832, 4096)):
        out.append({"kind": "wide", "len": L})
    b = bounds(tier)
    for nbits in (8, 32, 4, 2, 1):
        for method in ("mad", "iqrm"):
            out.append({"kind": "clean", "nbits": nbits, "N": b["clean_N"], "C": b["clean_C"], "method": method})
    out.append({"kind": "file"})
    return out


def _hdr(C=8, nsamples=100):
    from sigpyproc.header import Header

    return Header(filename="m.fil", data_type="filterbank", nchans=C, foff=-0.5, fch1=1400.0, nbits=8, tsamp=64e-6, tstart=58000.5, nsamples=nsamples,
                  source="J0000-00", telescope="Parkes", backend="BPSR", dm=12.5, ibeam=3, nbeams=13)


# ---------------------------------------------------------------- reference thresholding (float64)


def _zero(v):
    return np.isclose(v, 0)


def _ref_doublemad_z(x):
    x = np.asarray(x, dtype=np.float64)
    med = np.median(x)
    dev = np.abs(x - med)
    left, right = dev[x <= med], dev[x >= med]
    ml, mr = np.median(left) / NORM, np.median(right) / NORM
    if _zero(ml):
        ml = left.mean() / NORM_AAD
    if _zero(mr):
        mr = right.mean() / NORM_AAD
    scale = np.where(x < med, ml, np.where(x > med, mr, 0.5 * (ml + mr)))
    scale = np.where(_zero(scale), 1.0, scale)
    return (x - med) / scale


def _ref_iqr_z(d):
    d = np.asarray(d, dtype=np.float64)
    q1, q3 = np.percentile(d, [25, 75])
    sc = (q3 - q1) / IQR_NORM
    if _zero(sc):
        sc = 1.0
    return (d - np.median(d)) / sc


def _ref_mask(x, method, thr):
    """Returns (mask, ambiguous)."""
    x = np.asarray(x, dtype=np.float64)
    amb = False
    if method == "mad":
        z = np.abs(_ref_doublemad_z(x))
        amb = bool(np.any(np.abs(z - thr) < 1e-4 * max(1.0, thr)))
        return z > thr, amb
    n = len(x)
    mask = np.zeros(n, dtype=bool)
    radius = 5
    for lag in [*range(-radius, 0), *range(1, radius + 1)]:
        idx = np.clip(np.arange(n) + lag, 0, n - 1)
        z = np.abs(_ref_iqr_z(x - x[idx]))
        amb = amb or bool(np.any(np.abs(z - thr) < 1e-4 * max(1.0, thr)))
        mask |= z > thr
    return mask, amb


def run_shard(shard: dict, ctx, res, only=None) -> None:
    import warnings

    warnings.filterwarnings("ignore")
    {"stats": _stats, "union": _union, "clean": _clean, "file": _file, "wide": _wide}[shard["kind"]](shard, ctx, res, only)


def _wide(shard, ctx, res, only):
    L = int(shard["len"])
    hdr = _hdr(C=L)
    i = np.arange(L)
    with np.errstate(over="ignore"):
        noise = (((i.astype(np.uint64) + np.uint64(ctx.seed + 1)) * np.uint64(0x9E3779B97F4A7C15)) >> np.uint64(40)).astype(np.float64) / float(1 << 24) - 0.5
    base = 10.0 + 2.0 * np.sin(2 * np.pi * i / L) + 0.2 * noise
    for p in sorted({0, 5, L // 3, L // 2, L - 13, L - 1}):
        for w in (1, 3, 6, 12):
            for amp in (1.5, 10.0, -4.0):
                v = base.copy()
                v[p : p + w] += amp
                v = v.astype(np.float32)
                sk, ku = np.roll(v, 3), v[::-1].copy()
                for method in ("mad", "iqrm"):
                    for thr in (1, 3, 5):
                        if only is not None and [p, w, amp, method, thr] != only:
                            continue
                        case = {"shard": shard, "inner": [p, w, amp, method, thr]}
                        refs = [_ref_mask(a, method, thr) for a in (v, sk, ku)]
                        if any(r[1] for r in refs):
                            res.skip("z_within_1e-4_of_threshold")
                            continue
                        want = refs[0][0] | refs[1][0] | refs[2][0]
                        res.evaluations += 1
                        try:
                            m = _mk(hdr, v, sk, ku, thr)
                            m.apply_method(method)
                        except Exception as e:  # noqa: BLE001
                            res.violation({"site": "RFIMask.apply_method", "symptom": f"raised {type(e).__name__}", "method": method}, case, repr(e))
                            continue
                        got = np.asarray(m.stats_mask, dtype=bool)
                        if got.shape != want.shape or not np.array_equal(got, want):
                            d = np.flatnonzero(got != want) if got.shape == want.shape else []
                            res.violation({"site": "RFIMask.apply_method", "symptom": "statistics mask differs from the thresholding rule", "method": method, "wide": True}, case,
                                          f"{L} channels, outlier block at {p} width {w} amplitude {amp}, thr={thr}: {len(d)} channels differ, first {list(d[:8])}")
                            continue
                        res.outcome("stats_mask/wide_ok")
                        if 0 < want.sum() < len(want):
                            res.nontrivial += 1


def _mk(hdr, var, skew, kurt, thr):
    from sigpyproc.core.rfi import RFIMask

    C = hdr.nchans
    z = np.zeros(C, dtype=np.float32)
    return RFIMask(thr, hdr, z.copy(), np.asarray(var, dtype=np.float32), np.asarray(skew, dtype=np.float32), np.asarray(kurt, dtype=np.float32), z.copy(), z.copy())


def _stats(shard, ctx, res, only):
    L = int(shard.get("len", 8))
    hdr = _hdr(C=L)
    pre = shard["prefix"]
    for rest in itertools.product(range(3), repeat=L - 3):
        code = [*pre, *rest]
        v = np.array([VALS[i] for i in code], dtype=np.float32)
        sk, ku = np.roll(v, 3), v[::-1].copy()
        for method in ("mad", "iqrm"):
            for thr in (1, 3, 5):
                if only is not None and [code, method, thr] != only:
                    continue
                case = {"shard": shard, "inner": [code, method, thr]}
                refs = [_ref_mask(a, method, thr) for a in (v, sk, ku)]
                if any(r[1] for r in refs):
                    res.skip("z_within_1e-4_of_threshold")
                    continue
                want = refs[0][0] | refs[1][0] | refs[2][0]
                res.evaluations += 1
                try:
                    m = _mk(hdr, v, sk, ku, thr)
                    m.apply_method(method)
                except Exception as e:  # noqa: BLE001
                    res.violation({"site": "RFIMask.apply_method", "symptom": f"raised {type(e).__name__}", "method": method}, case, repr(e))
                    continue
                got = np.asarray(m.stats_mask, dtype=bool)
                if got.shape != want.shape or not np.array_equal(got, want):
                    res.violation({"site": "RFIMask.apply_method", "symptom": "statistics mask differs from the thresholding rule", "method": method}, case,
                                  f"var={v.tolist()} thr={thr}: got {got.astype(int).tolist()} want {want.astype(int).tolist()}")
                    continue
                if not np.array_equal(np.asarray(m.chan_mask, dtype=bool), want):
                    res.violation({"site": "RFIMask.apply_method", "symptom": "chan_mask is not the statistics mask when it is the only mask", "method": method}, case, "")
                    continue
                res.outcome("stats_mask/ok")
                if 0 < want.sum() < len(want):
                    res.nontrivial += 1
    res.sample({"shard": shard, "inner": [[*pre, 0, 2, 0, 1, 0], "iqrm", 3]}, cap=1)


def _union(shard, ctx, res, only):
    hdr = _hdr()
    f = np.asarray(hdr.chan_freqs, dtype=np.float64)  # 1400, 1399.5, ... 1396.5
    ranges = {
        "empty": [],
        "single_exact": [(float(f[2]), float(f[2]))],
        "overlapping": [(1397.9, 1399.1), (1398.4, 1399.6)],
        "outside": [(1500.0, 1600.0), (1000.0, 1396.4)],
        "edges": [(float(f[7]), float(f[6])), (float(f[0]), 2000.0)],
        "reversed_bounds": [(1399.0, 1398.0)],
    }
    funcs = {
        "identity": lambda m: m.copy(),
        "shift": lambda m: np.roll(m, 1),
        "all_false": lambda m: np.zeros_like(m),
        "neighbours": lambda m: np.convolve(m.astype(int), [1, 1, 1], "same") > 0,
    }
    vecs = [[0, 0, 0, 0, 0, 0, 0, 0], [0, 2, 0, 0, 1, 0, 0, 0], [2, 0, 1, 0, 0, 1, 0, 2], [1, 1, 0, 2, 2, 0, 1, 1]]
    for code in vecs:
        v = np.array([VALS[i] for i in code], dtype=np.float32)
        for rname, rl in ranges.items():
            for fname, fn in funcs.items():
                for method in ("mad", "iqrm"):
                    for order in itertools.permutations(("mask", "method", "funcn")):
                        if only is not None and [code, rname, fname, method, list(order)] != only:
                            continue
                        res.evaluations += 1
                        case = {"shard": shard, "inner": [code, rname, fname, method, list(order)]}
                        try:
                            m = _mk(hdr, v, np.roll(v, 3), v[::-1].copy(), 3)
                            prev = np.asarray(m.chan_mask, dtype=bool).copy()
                            grew = True
                            for step in order:
                                if step == "mask":
                                    m.apply_mask(rl)
                                elif step == "method":
                                    m.apply_method(method)
                                else:
                                    m.apply_funcn(fn)
                                cur = np.asarray(m.chan_mask, dtype=bool)
                                if np.any(prev & ~cur):
                                    grew = False
                                prev = cur.copy()
                        except Exception as e:  # noqa: BLE001
                            res.violation({"site": "RFIMask", "symptom": f"raised {type(e).__name__}"}, case, repr(e))
                            continue
                        want_user = np.zeros(len(f), dtype=bool)
                        for lo, hi in rl:
                            want_user |= (f >= lo) & (f <= hi)
                        um, sm, cm = (np.asarray(a, dtype=bool) for a in (m.user_mask, m.stats_mask, m.custom_mask))
                        if not grew:
                            res.violation({"site": "RFIMask", "symptom": "applying a further mask removed channels"}, case, f"order {order}")
                            continue
                        if not np.array_equal(um, want_user):
                            res.violation({"site": "RFIMask.apply_mask", "symptom": "user mask differs from the closed frequency ranges"}, case,
                                          f"ranges {rl}: got {um.astype(int).tolist()} want {want_user.astype(int).tolist()}")
                            continue
                        if not np.array_equal(np.asarray(m.chan_mask, dtype=bool), um | sm | cm):
                            res.violation({"site": "RFIMask", "symptom": "chan_mask is not the union of user, statistics and custom masks"}, case,
                                          f"order {order}: chan {np.asarray(m.chan_mask).astype(int).tolist()} user {um.astype(int).tolist()} stats {sm.astype(int).tolist()} custom {cm.astype(int).tolist()}")
                            continue
                        res.outcome("union/ok")
                        if 0 < prev.sum() < len(prev):
                            res.nontrivial += 1
    # histories with repeated steps: every prefix must satisfy chan_mask == union of everything applied so far
    steps = [("mask", "single_exact"), ("mask", "overlapping"), ("method", "mad"), ("method", "iqrm"), ("funcn", "shift"), ("funcn", "neighbours")]
    for code in vecs[1:3]:
        v = np.array([VALS[i] for i in code], dtype=np.float32)
        for hist in itertools.product(range(len(steps)), repeat=3):
            if only is not None and [code, "history", list(hist)] != only:
                continue
            res.evaluations += 1
            case = {"shard": shard, "inner": [code, "history", list(hist)]}
            try:
                m = _mk(hdr, v, np.roll(v, 3), v[::-1].copy(), 3)
                acc = np.zeros(len(f), dtype=bool)
                ok = True
                for k in hist:
                    kind, arg = steps[k]
                    if kind == "mask":
                        m.apply_mask(ranges[arg])
                        acc = acc | np.asarray(m.user_mask, dtype=bool)
                    elif kind == "method":
                        m.apply_method(arg)
                        acc = acc | np.asarray(m.stats_mask, dtype=bool)
                    else:
                        m.apply_funcn(funcs[arg])
                        acc = acc | np.asarray(m.custom_mask, dtype=bool)
                    if not np.array_equal(np.asarray(m.chan_mask, dtype=bool), acc):
                        ok = False
                        break
            except Exception as e:  # noqa: BLE001
                res.violation({"site": "RFIMask", "symptom": f"raised {type(e).__name__}"}, case, repr(e))
                continue
            if not ok:
                res.violation({"site": "RFIMask", "symptom": "chan_mask is not the union of all masks applied so far (channels lost or invented)"}, case,
                              f"history {[steps[k] for k in hist]}: chan {np.asarray(m.chan_mask).astype(int).tolist()} expected {acc.astype(int).tolist()}")
                continue
            res.outcome("union/ok")
            res.nontrivial += 1
    res.sample({"shard": shard, "inner": [vecs[1], "overlapping", "shift", "mad", ["funcn", "mask", "method"]]}, cap=1)


def _clean(shard, ctx, res, only):
    from sigpyproc.readers import FilReader

    wd = ctx.workdir("c16")
    nbits, N, C = shard["nbits"], shard["N"], shard["C"]
    rng = np.random.default_rng([ctx.seed, nbits])
    top = (1 << nbits) - 1 if nbits < 32 else 255
    if nbits == 32:
        X = rng.normal(100, 5, (N, C)).astype(np.float32)
        X[:, 3] += rng.normal(0, 80, N).astype(np.float32)
        X[:, 11] = 100.0
    elif nbits == 1:
        X = rng.integers(0, 2, (N, C)).astype(np.uint8)
        X[:, 3] = 1
        X[:, 11] = (np.arange(N) % 8 == 0)
    else:
        mid = top // 2
        X = np.clip(rng.integers(mid - 1, mid + 2, (N, C)), 0, top).astype(np.uint8)
        X[:, 3] = rng.integers(0, top + 1, N)
        X[:, 11] = top
    paths = fx.make_fileset(wd, X, nbits, [N], fch1=1400.0, foff=-0.5, tsamp=64e-6)
    for g in [*range(1, N + 2), 10 * N]:
        for method in (shard["method"],):
            for mv in ([None, 0, 1] if nbits >= 8 else [0, 1]):
                for fm in (None, [(1399.4, 1399.6)]):
                    if only is not None and [g, method, mv, fm is not None] != only:
                        continue
                    res.evaluations += 1
                    case = {"shard": shard, "inner": [g, method, mv, fm is not None]}
                    out = str(wd / "clean.fil")
                    # a custom function on every other configuration: it must see the mask built so far and its result must be OR-ed in
                    seen_by_custom = []
                    cf = None
                    if (g + (fm is not None)) % 2 == 0:
                        def cf(m, seen_by_custom=seen_by_custom):
                            seen_by_custom.append(np.array(m, dtype=bool))
                            return np.roll(np.asarray(m, dtype=bool), 1)
                    try:
                        fil = FilReader(paths)
                        if g % 3 == 0:
                            # a refused request (unknown method, over a different range) first: it must leave nothing behind on the reader
                            try:
                                fil.clean_rfi(method="median", threshold=3, outfile_name=str(wd / "refused.fil"), gulp=g, nsamps=max(2, N // 3), quiet=True, description="vf")
                                res.violation({"site": "Filterbank.clean_rfi", "symptom": "unknown method accepted"}, case, "method='median'")
                                continue
                            except ValueError:
                                if fil.chan_stats is not None:
                                    res.violation({"site": "Filterbank.clean_rfi", "symptom": "a refused request left channel statistics on the reader"}, case,
                                                  "clean_rfi(method='median', nsamps=N/3) raised, but chan_stats is set and will be used by the next call")
                                    continue
                                res.outcome("clean/refused_leaves_no_state")
                        name, mask = fil.clean_rfi(method=method, threshold=3, freq_mask=fm, custom_funcn=cf, mask_value=mv, outfile_name=out, gulp=g, quiet=True, description="vf")
                        means = np.asarray(fil.chan_stats.mean)
                        del fil
                        cm = np.asarray(mask.chan_mask, dtype=bool)
                        o = FilReader(out)
                        Y = np.asarray(o.read_block(0, o.header.nsamples).data).T
                        o._file.close()
                    except Exception as e:  # noqa: BLE001
                        res.violation({"site": "Filterbank.clean_rfi", "symptom": f"raised {type(e).__name__}", "nbits": nbits}, case, repr(e))
                        continue
                    if Y.shape != X.shape:
                        res.violation({"site": "Filterbank.clean_rfi", "symptom": "cleaned file has a different shape"}, case, f"{Y.shape} vs {X.shape}")
                        continue
                    um, sm, cu = (np.asarray(a, dtype=bool) for a in (mask.user_mask, mask.stats_mask, mask.custom_mask))
                    if not np.array_equal(cm, um | sm | cu) or (cf is not None and (len(seen_by_custom) != 1 or not np.array_equal(seen_by_custom[0], um | sm)
                                                                  or not np.array_equal(cu, np.roll(um | sm, 1)))) or (cf is None and cu.any()):
                        res.violation({"site": "Filterbank.clean_rfi", "symptom": "returned mask is not user | statistics | custom"}, case,
                                      f"chan {cm.astype(int).tolist()} user {um.astype(int).tolist()} stats {sm.astype(int).tolist()} custom {cu.astype(int).tolist()}")
                        continue
                    if fm is not None and not cm[1]:
                        res.violation({"site": "Filterbank.clean_rfi", "symptom": "channel inside the user frequency range is not masked"}, case, f"mask {cm.astype(int).tolist()}")
                        continue
                    Xf = X.astype(np.float32)
                    if not np.array_equal(Y[:, ~cm], Xf[:, ~cm]):
                        bad = np.argwhere(Y[:, ~cm] != Xf[:, ~cm])[:2].tolist()
                        res.violation({"site": "Filterbank.clean_rfi", "symptom": "unmasked samples changed", "nbits": nbits}, case, f"gulp {g}: first differences at {bad}")
                        continue
                    if cm.any():
                        if mv is None:
                            expect = np.float32(np.median(means[~cm])).astype(fx.NP_DTYPE[nbits]).astype(np.float32)
                        else:
                            expect = np.float32(mv)
                        # NaN-aware: when every channel is masked the default value (median of no channel) is NaN
                        if not np.array_equal(Y[:, cm], np.full(Y[:, cm].shape, expect, dtype=Y.dtype), equal_nan=True):
                            res.violation({"site": "Filterbank.clean_rfi", "symptom": "masked channel does not hold the mask value in every sample", "nbits": nbits,
                                           "default_value": mv is None}, case,
                                          f"gulp {g}: expected {expect!r}, masked channels {np.flatnonzero(cm).tolist()} hold values {np.unique(Y[:, cm]).tolist()[:6]}")
                            continue
                        if mv is None:
                            res.outcome("clean/default_value_ok")
                    res.outcome("clean/ok")
                    if 0 < cm.sum() < C:
                        res.nontrivial += 1
    res.sample({"shard": shard, "inner": [3, "iqrm", 0, True]}, cap=1)


def _file(shard, ctx, res, only):
    from sigpyproc.core.rfi import RFIMask

    wd = ctx.workdir("c16f")
    hdr = _hdr()
    rng = np.random.default_rng([ctx.seed, 3])
    for i, thr in enumerate((1.0, 3.0, 4.5)):
        for method in ("mad", "iqrm"):
            if only is not None and [i, method] != only:
                continue
            res.evaluations += 1
            case = {"shard": shard, "inner": [i, method]}
            arrs = [rng.normal(10, 3, 8).astype(np.float32) for _ in range(6)]
            arrs[1][2] = 500.0
            try:
                m = RFIMask(thr, hdr, *arrs)
                m.apply_mask([(1398.9, 1399.1)])
                m.apply_method(method)
                m.apply_funcn(lambda c: np.roll(c, 1))
                fn = m.to_file(str(wd / f"m{i}{method}.h5"))
                b = RFIMask.from_file(fn)
            except Exception as e:  # noqa: BLE001
                res.violation({"site": "RFIMask.to_file/from_file", "symptom": f"raised {type(e).__name__}"}, case, repr(e))
                continue
            bad = []
            for k in ("chan_mean", "chan_var", "chan_skew", "chan_kurt", "chan_maxima", "chan_minima", "chan_mask", "user_mask", "stats_mask", "custom_mask"):
                a1, a2 = np.asarray(getattr(m, k)), np.asarray(getattr(b, k))
                if a1.shape != a2.shape or a1.dtype != a2.dtype or not np.array_equal(a1, a2):
                    bad.append(k)
            if float(b.threshold) != float(thr):
                bad.append("threshold")
            for k in ("filename", "data_type", "nchans", "foff", "fch1", "nbits", "tsamp", "tstart", "nsamples", "source", "telescope", "backend", "dm", "ibeam", "nbeams", "frame", "nifs"):
                if getattr(m.header, k) != getattr(b.header, k):
                    bad.append(f"header.{k}")
            if bad:
                res.violation({"site": "RFIMask.to_file/from_file", "symptom": "mask file round trip changed fields"}, case, f"{bad}")
                continue
            res.outcome("file/ok")
            res.nontrivial += 1
