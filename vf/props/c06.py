"""C06 - streaming reductions are gulp-independent and equal their definitions.

Engine A: reductions x depth x file split x every gulp x every sub-range x DMs, on real files,
against numpy on the labelled array; plus bit-identity across gulps.
"""
from __future__ import annotations

import numpy as np

from vf.core import fixtures as fx

PROP = "C06"
LEVEL = "exploration"
RULE = (
    "complete enumeration of (depth, file split, gulp in 1..N+1 and 10N, every (start,nsamps) plus the defaults, reduction in "
    "{collapse, bandpass, read_chan(c) for every c, dedisperse(dm) for a DM set with delay tables from all-zero to maxdelay = "
    "nsamps-1, compute_stats, compute_stats_basic}); result compared exactly (integer-valued data) with numpy on "
    "X[start:start+nsamps]; all gulps of one sub-range compared bit-for-bit. Non-trivial = more than one block, or a proper "
    "sub-range, or maxdelay > 0. A scale lane repeats the comparison on one stream of ordinary size (70 001 samples x 32 channels in 5 member files, "
    "gulps {16384, 4099, 65536, 70001, 7000} (statistics also gulp 64 = 1094 blocks), 4 ranges, DMs up to maxdelay 3260 samples)"
)
SCALE_LANE = 'one stream of 70 001 samples x 32 channels in 5 member files at 3 (thorough 5) depths: gulps {16384, 4099, 65536, 70001, 7000} (+64 for statistics) x 4 ranges x {collapse, bandpass, 3 channels, 4 DMs up to maxdelay 3260, both statistics}'
ASSUMPTIONS = [
    "integer-valued labelled data: float32 sums are exact, so equality is bit-exact except for the moments (tolerance 50*eps32*n relative, +1e-3 absolute on skew/kurtosis)",
    "dedispersion delays are taken from the library's own Header.get_dmdelays (C09 checks that table) and counted from the earliest channel, so tables of either sign are covered (negative DMs included)",
    "a DM whose maxdelay >= nsamps is outside the quantifier and skipped",
]
REQUIRED_OUTCOMES = ["collapse/ok", "bandpass/ok", "read_chan/ok", "dedisperse/ok", "dedisperse/gulp_lt_2maxdelay", "dedisperse/negative_delays", "stats/ok", "stats_basic/ok", "gulp_identity/ok", "scale_lane/ok", "stats/reader_reuse_ok"]

EPS32 = float(np.finfo(np.float32).eps)
SCALE = {"N": 70001, "C": 32, "lengths": [16384, 1, 30000, 23615, 1], "band": [1500.0, -10.0], "dms": [0.0, 100.0, 3000.0, -100.0],
         "gulps": [16384, 4099, 65536, 70001, 7000], "ranges": [[None, None], [12345, 50000], [65530, None], [1, 65537]]}
DMS = [0.0, 1.0, 3.0, 8.0, 8.7, -3.0, -8.7, 14.0]


def bounds(tier: str) -> dict:
    if tier == "quick":
        return {"depths": [8, 32, 4], "N": 10, "splits": "single file", "dms": DMS[:6]}
    return {"depths": [8, 32, 4, 1, 2], "N": 16, "splits": "single file + 2 and 3 file sets", "dms": DMS}


def shards(tier: str, seed: int) -> list:
    b = bounds(tier)
    out = []
    N = b["N"]
    for nbits in b["depths"]:
        C = {8: 4, 32: 4, 4: 4, 1: 8, 2: 4}[nbits]
        splits = [[N]]
        if tier == "thorough":
            splits += [[N // 2, N - N // 2], [3, N - 8, 5]]
        for lengths in splits:
            # split the sub-range starts over shards for parallelism
            for start in range(N):
                out.append({"nbits": nbits, "nchans": C, "N": N, "lengths": lengths, "start": start, "dms": b["dms"]})
    # scale lane: one stream of ordinary size (more than 2**16 samples, 32 channels, 5 member files) on a few gulps and ranges, so that
    # code selected or broken only beyond toy sizes (index widths, float32 exactness, block-size thresholds) is exercised too
    NS = SCALE["N"]
    for nbits in ((8, 32, 2) if tier == "quick" else (8, 32, 4, 2, 1)):
        for api_group in ("reduce", "dedisperse", "stats"):
            out.append({"nbits": nbits, "nchans": SCALE["C"], "N": NS, "lengths": SCALE["lengths"], "start": 0, "dms": SCALE["dms"],
                        "band": SCALE["band"], "scale": api_group, "gulps": SCALE["gulps"] + ([64] if api_group == "stats" else []), "ranges": SCALE["ranges"]})
    return out


def _open(wd, shard, seed):
    from sigpyproc.readers import FilReader

    nbits, C, N = shard["nbits"], shard["nchans"], shard["N"]
    X = fx.label_data(N, C, nbits, seed)
    if "scale" in shard:
        # values below 100: float32 sums over 70 001 samples stay exact (the quantifier asks for exact sums); the extremes of every channel occur
        # once, early in the stream (samples 5 and 7), so an accumulator that forgets its history cannot recover them later
        h = fx.label_data(N, C, 8, seed).astype(np.int64)
        if nbits >= 8:
            X = (1 + h % 98).astype(np.uint8 if nbits == 8 else np.float32)
            X[5, :], X[7, :] = 120, 0
        else:
            top = (1 << nbits) - 1
            X = (1 + h % max(1, top - 1)).astype(np.uint8) if nbits > 1 else (h % 2).astype(np.uint8)
            if nbits > 1:
                X[5, :], X[7, :] = top, 0
    fch1, foff = shard.get("band", (1500.0, -100.0))
    paths = fx.make_fileset(wd, X, nbits, shard["lengths"], fch1=fch1, foff=foff, tsamp=1e-3)
    return X, paths, FilReader(paths)


def _ref_stats(Y):
    Y = Y.astype(np.float64)
    m = Y.mean(0)
    v = Y.var(0)
    d = Y - m
    with np.errstate(divide="ignore", invalid="ignore"):
        sk = (d**3).mean(0) / v**1.5
        ku = (d**4).mean(0) / v**2 - 3.0
    return m, v, sk, ku


def run_shard(shard: dict, ctx, res, only=None) -> None:
    wd = ctx.workdir("c06")
    X, paths, fil = _open(wd, shard, ctx.seed)
    N, C = shard["N"], shard["nchans"]
    start = shard["start"]
    gulps = shard.get("gulps") or [*range(1, N + 2), 10 * N]
    delays = {}
    for dm in shard["dms"]:
        d = np.asarray(fil.header.get_dmdelays(dm)).astype(int)
        # delays are counted from the earliest channel (for a negative DM the table is all <= 0 and the output starts
        # -min(d) samples later); C09 decides the table itself and the start offset
        delays[dm] = d - int(d.min())
    apis = ["collapse", "bandpass", *[f"read_chan:{c}" for c in range(C)], *[f"dedisperse:{dm}" for dm in delays], "stats", "stats_basic"]
    ranges = [(start, ns) for ns in range(1, N - start + 1)]
    if start == 0:
        ranges.append((None, None))  # API defaults
    elif start == 1:
        ranges.append((start, None))
    if "scale" in shard:
        ranges = [tuple(r) for r in shard["ranges"]]
        apis = {"reduce": ["collapse", "bandpass", "read_chan:0", f"read_chan:{C - 1}", "read_chan:17"],
                "dedisperse": [f"dedisperse:{dm}" for dm in delays], "stats": ["stats", "stats_basic"]}[shard["scale"]]
    for st, ns in ranges:
        s_eff = 0 if st is None else st
        n_eff = (N - s_eff) if ns is None else ns
        Y = X[s_eff : s_eff + n_eff].astype(np.float64)
        for api in apis:
            if only is not None and (only[0] == "reuse" or api != only[0] or [st, ns] != only[1]):
                continue
            ref = _reference(api, Y, delays, n_eff)
            if ref is None:
                res.skip("maxdelay>=nsamps")
                continue
            first = None
            for g in gulps:
                if only is not None and len(only) > 2 and only[2] is not None and g != only[2]:
                    continue
                res.evaluations += 1
                case = {"shard": shard, "inner": [api, [st, ns], g]}
                got = _call(fil, api, g, st, ns, res, case)
                if got is None:
                    continue
                ok = _compare(api, got, ref, n_eff, res, case)
                if not ok:
                    continue
                name = api.split(":")[0]
                res.outcome(f"{name}/ok")
                multi = g < n_eff
                if name == "dedisperse":
                    md = int(delays[float(api.split(":")[1])].max())
                    if g < 2 * md:
                        res.outcome("dedisperse/gulp_lt_2maxdelay")
                    if float(api.split(":")[1]) < 0 and md > 0:
                        res.outcome("dedisperse/negative_delays")
                    multi = multi or md > 0
                if multi or n_eff < N:
                    res.nontrivial += 1
                if "scale" in shard:
                    res.outcome("scale_lane/ok")
                if name in ("stats", "stats_basic"):
                    continue
                if first is None:
                    first = (g, got)
                elif got.tobytes() != first[1].tobytes():
                    res.violation({"site": f"Filterbank.{name}", "symptom": "result depends on the gulp"}, case,
                                  f"gulp {first[0]} -> {first[1].tolist()}, gulp {g} -> {got.tolist()}")
                else:
                    res.outcome("gulp_identity/ok")
    # the same reader object asked for two ranges of the SAME length one after the other (and basic after full, full after basic): the answer must
    # describe the second range - nothing may be remembered from the first call
    if "scale" not in shard and start > 0:
        for k in sorted({1, min(3, N - start), N - start}):
            for first, second in (("stats", "stats"), ("stats_basic", "stats"), ("stats", "stats_basic"), ("stats_basic", "stats_basic")):
                if only is not None and (only[0] != "reuse" or only[1] != [first, second, k]):
                    continue
                res.evaluations += 1
                case = {"shard": shard, "inner": ["reuse", [first, second, k]]}
                g = 2
                if _call(fil, first, g, 0, k, res, case) is None:
                    continue
                got = _call(fil, second, g, start, k, res, case)
                if got is None:
                    continue
                ref = _reference(second, X[start : start + k].astype(np.float64), delays, k)
                if _compare(second, got, ref, k, res, case):
                    res.outcome("stats/reader_reuse_ok")
                    res.nontrivial += 1
    res.sample({"shard": shard, "inner": ["dedisperse:3.0", [start, None], 3]}, cap=1)


def _reference(api, Y, delays, n_eff):
    name, _, arg = api.partition(":")
    if name == "collapse":
        return Y.sum(1)
    if name == "bandpass":
        return Y.mean(0)
    if name == "read_chan":
        return Y[:, int(arg)].copy()
    if name == "dedisperse":
        d = delays[float(arg)]
        md = int(d.max())
        if md >= n_eff:
            return None
        n_out = n_eff - md
        out = np.zeros(n_out)
        for c in range(Y.shape[1]):
            out += Y[d[c] : d[c] + n_out, c]
        return out
    return (Y.shape[0], Y.min(0), Y.max(0), *_ref_stats(Y))


def _call(fil, api, g, st, ns, res, case):
    name, _, arg = api.partition(":")
    kw = {"gulp": g, "quiet": True, "description": "vf"}
    if g % 4 == 3:
        kw["allocator"] = lambda n: np.zeros(n, dtype=np.uint8)  # plan_kwargs pass through to read_plan
    if st is not None:
        kw["start"] = st
    if ns is not None:
        kw["nsamps"] = ns
    try:
        if name == "collapse":
            return np.array(fil.collapse(**kw).data)
        if name == "bandpass":
            return np.array(fil.bandpass(**kw).data)
        if name == "read_chan":
            return np.array(fil.read_chan(int(arg), **kw).data)
        if name == "dedisperse":
            return np.array(fil.dedisperse(float(arg), **kw).data)
        if name == "stats":
            fil.compute_stats(**kw)
        else:
            fil.compute_stats_basic(**kw)
        cs = fil.chan_stats
        out = [np.array(cs.moments["count"]), np.array(cs.minima), np.array(cs.maxima), np.array(cs.mean), np.array(cs.var)]
        if name == "stats":
            out += [np.array(cs.skew), np.array(cs.kurtosis)]
        return out
    except Exception as e:  # noqa: BLE001
        res.violation({"site": f"Filterbank.{name}", "symptom": f"raised {type(e).__name__}", "subrange": (st, ns) != (None, None) and not (st in (None, 0) and ns is None)},
                      case, repr(e))
        return None


def _compare(api, got, ref, n_eff, res, case) -> bool:
    name = api.split(":")[0]
    site = f"Filterbank.{name}"
    if name in ("collapse", "bandpass", "read_chan", "dedisperse"):
        if got.shape != ref.shape:
            res.violation({"site": site, "symptom": "wrong output length"}, case, f"got {got.shape} want {ref.shape}")
            return False
        if name == "bandpass":
            ok = np.allclose(got, ref, rtol=4 * EPS32, atol=0)
        else:
            ok = np.array_equal(got.astype(np.float64), ref)
        if not ok:
            res.violation({"site": site, "symptom": "wrong values"}, case, f"got {got.tolist()} want {ref.tolist()}")
            return False
        return True
    n, mn, mx, m, v, sk, ku = ref
    cnt, gmn, gmx, gm, gv = got[:5]
    if not (np.all(cnt == n) and np.array_equal(gmn, mn) and np.array_equal(gmx, mx)):
        res.violation({"site": site, "symptom": "count/min/max differ"}, case,
                      f"count {cnt.tolist()} want {n}; min {gmn.tolist()} want {mn.tolist()}; max {gmx.tolist()} want {mx.tolist()}")
        return False
    tol = 50 * EPS32 * max(n, 1)
    abs_hi = 1e-3
    if n > 4096:
        # scale lane: the kernels carry float64 running sums inside a block and round to float32 once per block; observed deviation is
        # about 2 eps32 over seeds and gulps, the limit below leaves two orders of magnitude (the n-proportional bound would be vacuous here)
        tol = 256 * EPS32
        abs_hi = 1e-4
    scale = np.maximum(np.abs(mx), 1.0)
    dev_m = np.max(np.abs(gm - m) / scale)
    dev_v = np.max(np.abs(gv - v) / np.maximum(v, scale**2 * 1e-6)) if n > 1 else np.max(np.abs(gv))
    res.maximum("stats_mean_dev_over_tol", dev_m / tol)
    res.maximum("stats_var_dev_over_tol", dev_v / tol)
    if not np.all(np.isfinite(gm)) or not np.all(np.isfinite(gv)) or dev_m > tol or dev_v > tol:
        res.violation({"site": site, "symptom": "mean/variance differ from two-pass float64"}, case,
                      f"mean {gm.tolist()} want {m.tolist()}; var {gv.tolist()} want {v.tolist()} (n={n})")
        return False
    if name == "stats" and n > 2 and np.all(v > 0):
        gsk, gku = got[5], got[6]
        dsk = np.max(np.abs(gsk - sk))
        dku = np.max(np.abs(gku - ku))
        lim_s = abs_hi + tol * np.max(np.abs(sk) + 1)
        lim_k = abs_hi + tol * np.max(np.abs(ku) + 3)
        res.maximum("stats_skew_dev_over_tol", dsk / lim_s)
        res.maximum("stats_kurt_dev_over_tol", dku / lim_k)
        if not (np.all(np.isfinite(gsk)) and np.all(np.isfinite(gku))) or dsk > lim_s or dku > lim_k:
            res.violation({"site": site, "symptom": "skewness/kurtosis differ from two-pass float64"}, case,
                          f"skew {gsk.tolist()} want {sk.tolist()}; kurt {gku.tolist()} want {ku.tolist()} (n={n})")
            return False
    return True
