"""C07 - streaming file-to-file transforms equal their whole-array definitions.

Engine A: transform x parameters x depth x gulp x sub-range on real files; the output file is
decoded with /verif's own parser and with the library reader and compared with numpy on the
labelled input.
"""
from __future__ import annotations

import itertools
import os

import numpy as np

from vf.core import fixtures as fx

PROP = "C07"
LEVEL = "exploration"
RULE = (
    "complete enumeration of (transform, parameters) x (gulp, sub-range) design points: transforms = invert_freq, "
    "apply_channel_mask (all 16 masks over 4 channels + 3 over 8, 2 fill values), extract_samps, extract_chans (6 lists), "
    "extract_bands (every legal chanstart/nchans/chanpersub, plus batch sizes 1..3), downsample (every tfactor 1..N x ffactor | C), subband "
    "(nsub | C x DM set), remove_zerodm; thorough: full product gulp 1..N+1,10N x every sub-range; quick: all gulps x 3 "
    "ranges + 3 gulps x all ranges. Output decoded independently and via FilReader/from_tim; raw size must equal hdrlen + "
    "n*C*nbits/8. Non-trivial = more than one block or a proper sub-range"
)
SCALE_LANE = "none beyond the batch-size parameters (extract_chans / extract_bands with more outputs than batch_size 1..3); transforms stream through C01's reader, whose scale lane covers the block planning"
ASSUMPTIONS = [
    "integer-valued labelled input; selections/permutations/fills exact; decimation = floor(mean) at integer depths, float32 mean at 32 bit",
    "zero-DM removal compared within one quantisation level (1e-4 relative at 32 bit), only on cases whose float64 result stays inside the representable range",
    "outputs restricted to those whose sample is a whole number of bytes; sub-banding DMs (one of them negative) with maxdelay < nsamps; negative tables are counted from the earliest channel",
    "extract_bands may return more files than nchans/chanpersub (statement does not fix the count): only the first nchans/chanpersub bands are required, every returned band is checked",
]
REQUIRED_OUTCOMES = ["invert/ok", "mask/ok", "extract_samps/ok", "extract_chans/ok", "extract_bands/ok", "downsample/ok", "subband/ok", "zerodm/ok"]

DMS = [0.0, 1.0, 3.0, 8.0, -3.0]


def bounds(tier: str) -> dict:
    if tier == "quick":
        return {"depths": [8, 32, 4, "1 and 2 on the reduced design"], "N": 10, "C": 8, "design": "star: all gulps x 3 ranges + gulps {1,3,N+1} x all ranges; reduced: all gulps x default range + gulp 3 x all ranges"}
    return {"depths": [8, 32, 4, 1, 2], "N": 12, "C": 8, "design": "full product: gulps 1..N+1,10N x all sub-ranges"}


def _params(name: str, nbits: int, C: int, N: int, tier: str):
    per = 8 // nbits if nbits < 8 else 1

    def aligned(nch: int) -> bool:
        return nch % per == 0

    if name in ("invert", "extract_samps", "zerodm"):
        return [None]
    if name == "mask":
        ms = [[int(b) for b in f"{i:04b}"] + [0] * (C - 4) for i in range(16)]
        ms += [[1] * C, ([0, 1] * C)[:C], [0] * (C - 1) + [1]]
        vals = [0, 1] if nbits <= 2 else [0, 3]
        out = [[m, v] for m in ms for v in vals]
        # larger fill values on a few masks: the value is cast to the file's sample type
        out += [[ms[5], 250], [ms[-2], 200]] if nbits == 8 else [[ms[5], -2.5], [ms[-2], 1e6]] if nbits == 32 else [[ms[5], 15]] if nbits == 4 else []
        return out
    if name == "extract_chans":
        # [channel list, batch_size]; small batch sizes exercise the second and later batches
        hi = C - 1
        lists = [[0], [hi], [2, hi - 2], [hi - 2, 2], None, [3, 3]]
        return [[cl, 200] for cl in lists] + [[None, 3], [[hi - 2, 2, hi, 0], 1], [[1, 4, hi - 1], 2]]
    if name == "extract_bands":
        out = []
        for cps in (2, 4, 8):
            if not aligned(cps):
                continue
            for nch in range(cps, C + 1, cps):
                for cs in range(0, C - nch + 1):
                    out.append([cs, nch, cps, 200])
        # the default chanpersub (None = one band of nchans channels)
        out += [[cs, nch, None, 200] for cs, nch in ((0, C), (per, C - per)) if aligned(nch) and nch > 1 and cs + nch <= C]
        # small batch sizes: bands of the second and later batches
        out += [[0, C, 2, 1], [0, C, 2, 3], [1, 6, 2, 2]] if aligned(2) else [[0, C, cps, 1] for cps in (4, 8) if aligned(cps)]
        return out
    if name == "downsample":
        tfs = range(1, N + 1) if tier == "thorough" else [1, 2, 3, 4, 5, 7, N]
        return [[tf, ff] for tf in tfs for ff in (1, 2, 4, 5, 7, 8) if C % ff == 0 and aligned(C // ff)]
    if name == "subband":
        return [[dm, nsub] for dm in DMS for nsub in (1, 2, 4, 5, 8) if C % nsub == 0]
    raise AssertionError(name)


TRANSFORMS = ["invert", "mask", "extract_samps", "extract_chans", "extract_bands", "downsample", "subband", "zerodm"]


def shards(tier: str, seed: int) -> list:
    b = bounds(tier)
    out = []
    combos = [(nbits, b["C"], name) for nbits in b["depths"] if isinstance(nbits, int) for name in TRANSFORMS]
    # an odd channel count (only possible at whole-byte depths)
    combos += [(nbits, 5, name) for nbits in (8, 32) for name in ("invert", "mask", "extract_samps", "extract_chans", "downsample", "subband", "zerodm")]
    combos += [(8, 7, "downsample")]  # factor products such as 7 x 7 = 49
    combos += [(32, b["C"], "downsample:fractional")]  # non-integer float data (see _input)
    if tier == "quick":
        # the two remaining sub-byte depths on the reduced design (1 bit has its own bit order)
        combos += [(nbits, b["C"], name) for nbits in (1, 2) for name in TRANSFORMS]
    for nbits, Cc, name in combos:
        name, _, variant = name.partition(":")
        if True:
            ps = _params(name, nbits, Cc, b["N"], tier)
            # split big parameter lists for parallelism
            nchunk = max(1, len(ps) // 6)
            for i in range(0, len(ps), nchunk):
                out.append({"nbits": nbits, "N": b["N"], "C": Cc, "transform": name, "plo": i, "phi": min(len(ps), i + nchunk), "tier": tier,
                            **({"variant": variant} if variant else {})})
    return out


def _design(N: int, tier: str):
    gulps = [*range(1, N + 2), 10 * N]
    ranges = [(s, n) for s in range(N) for n in range(1, N - s + 1)]
    if tier == "thorough":
        pts = [(g, s, n) for g in gulps for (s, n) in ranges]
        pts += [(g, 0, None) for g in gulps] + [(g, 2, None) for g in (1, 4)]
        return pts
    pts = []
    if tier == "small":  # used for the odd-channel-count variants in quick
        pts += [(g, 0, None) for g in gulps]
        pts += [(3, s, n) for (s, n) in ranges]
        return pts
    for g in gulps:
        pts += [(g, 0, None), (g, 2, N - 5), (g, 1, None)]
    for g in (1, 3, N + 1):
        pts += [(g, s, n) for (s, n) in ranges]
    return pts


def _input(nbits: int, N: int, C: int, transform: str, seed: int, variant: str | None = None) -> np.ndarray:
    if variant == "fractional":
        # non-integer float samples of mixed sign and a dynamic range of 1e4 (sums are no longer exact: compared within the float32 bound)
        h = fx.label_data(N, C, 8, seed).astype(np.float64)
        X = (h * 0.37 + 0.123) * np.where((h.astype(np.int64) % 3) == 0, -1.0, 1.0)
        X[::4, ::3] *= 1e2
        return X.astype(np.float32)
    if C == 7:
        # mostly constant rows: block sums are exact multiples of the factor product
        X = fx.label_data(N, C, nbits, seed)
        X[: N - 2, :] = 3
        return X
    if transform != "zerodm":
        return fx.label_data(N, C, nbits, seed)
    # data that keeps the zero-DM result inside the representable range
    h = fx.label_data(N, C, 8, seed + 17).astype(np.int64)
    if nbits == 32:
        return (100 + (h % 41) - 20).astype(np.float32)
    if nbits == 8:
        return (100 + (h % 41) - 20).astype(np.uint8)
    if nbits == 4:
        return (6 + h % 4).astype(np.uint8)
    if nbits == 2:
        return (1 + h % 2).astype(np.uint8)
    a = (h[:, :1] % 2).astype(np.uint8)
    return np.repeat(a, C, axis=1)


def _decode(path: str, res, case, site):
    """Independent decode of an output file -> (fields dict, X[nsamps, nchans] float64) or None."""
    buf = open(path, "rb").read()
    try:
        fields, hl = fx.parse_header_bytes(buf)
    except Exception as e:  # noqa: BLE001
        res.violation({"site": site, "symptom": "output header malformed"}, case, repr(e))
        return None
    f = dict(fields)
    nb, C = f["nbits"], f["nchans"]
    data = buf[hl:]
    if (len(data) * 8) % (nb * C) != 0:
        res.violation({"site": site, "symptom": "data section is not a whole number of samples of the declared depth"}, case,
                      f"{len(data)} data bytes, nbits={nb}, nchans={C}")
        return None
    if nb < 8:
        arr = fx.ref_unpack(data, nb).astype(np.float64)
    else:
        arr = np.frombuffer(data, dtype=fx.NP_DTYPE[nb]).astype(np.float64)
    return f, arr.reshape(-1, C), hl


def _library_read(path: str, is_tim: bool):
    if is_tim:
        from sigpyproc.timeseries import TimeSeries

        ts = TimeSeries.from_tim(path)
        return ts.header, np.asarray(ts.data, dtype=np.float64).reshape(-1, 1)
    from sigpyproc.readers import FilReader

    fil = FilReader(path)
    n = fil.header.nsamples
    if n == 0:
        return fil.header, np.zeros((0, fil.header.nchans))
    blk = fil.read_block(0, n)
    fil._file.close()
    return fil.header, np.asarray(blk.data, dtype=np.float64).T


def _expected(name, p, Y, nbits, C, delays):
    """List of (C_out, nbits_out, expected[n_out, C_out] float64, tol) or None when out of scope."""
    n = Y.shape[0]
    if name == "invert":
        return [(C, nbits, Y[:, ::-1], 0)]
    if name == "mask":
        m = np.array(p[0], dtype=bool)
        Z = Y.copy()
        Z[:, m] = p[1]
        return [(C, nbits, Z, 0)]
    if name == "extract_samps":
        return [(C, nbits, Y, 0)]
    if name == "extract_chans":
        chans = list(range(C)) if p[0] is None else p[0]
        return [(1, 32, Y[:, [c]], 0) for c in chans]
    if name == "extract_bands":
        cs, nch, cps = p[:3]
        cps = nch if cps is None else cps
        return [(cps, nbits, Y[:, cs + i * cps : cs + (i + 1) * cps], 0) for i in range((C - cs) // cps)]
    if name == "downsample":
        tf, ff = p
        nt = n // tf
        Z = Y[: nt * tf].reshape(nt, tf, C // ff, ff).sum(axis=(1, 3)) / (tf * ff)
        if nbits < 32:
            Z = np.floor(Z)
            return [(C // ff, nbits, Z, 0)]
        # float32 bound relative to the largest input (a mean in float32 cannot be asked to resolve cancellation below eps32 * max|x|)
        return [(C // ff, nbits, Z, max(1e-6, 8 * float(np.finfo(np.float32).eps) * float(np.max(np.abs(Y)))) if np.any(Y != np.round(Y)) else 1e-6)]
    if name == "subband":
        dm, nsub = p
        d = delays[dm]
        d = d - int(d.min())  # negative tables (negative DM) are counted from the earliest channel, as in streamed dedispersion (C06/C09)
        md = int(d.max())
        if md >= n:
            return None
        n_out = n - md
        Z = np.zeros((n_out, nsub))
        sf = C // nsub
        for c in range(C):
            Z[:, c // sf] += Y[d[c] : d[c] + n_out, c]
        return [(nsub, 32, Z, 0)]
    if name == "zerodm":
        b = Y.mean(0)
        w = b / b.sum()
        Z = Y - Y.sum(1, keepdims=True) * w + b
        top = (1 << nbits) - 1 if nbits < 32 else None
        if top is not None and (Z.min() < 0 or Z.max() > top):
            return None
        return [(C, nbits, Z, 1.0 if nbits < 32 else 1e-4)]
    raise AssertionError(name)


def _run_transform(fil, name, p, g, st, ns, wd):
    kw = {"gulp": g, "quiet": True, "description": "vf"}
    rk = dict(kw)
    if st is not None:
        rk["start"] = st
    if ns is not None:
        rk["nsamps"] = ns
    out = str(wd / "out.fil")
    base = str(wd / "outb")
    if name == "invert":
        return [fil.invert_freq(outfile_name=out, **rk)]
    if name == "mask":
        return [fil.apply_channel_mask(np.array(p[0]), p[1], outfile_name=out, **rk)]
    if name == "extract_samps":
        return [fil.extract_samps(st or 0, ns if ns is not None else fil.header.nsamples - (st or 0), outfile_name=out, **kw)]
    if name == "extract_chans":
        return list(fil.extract_chans(None if p[0] is None else np.array(p[0]), outfile_base=base, batch_size=p[1], **rk))
    if name == "extract_bands":
        return list(fil.extract_bands(p[0], p[1], p[2], outfile_base=base, batch_size=p[3], **rk))
    if name == "downsample":
        # a factor of 1 is left at its default, so that the documented defaults (tfactor=1, ffactor=1) are exercised too
        fk = {k: v for k, v in (("tfactor", p[0]), ("ffactor", p[1])) if v != 1}
        return [fil.downsample(outfile_name=out, **fk, **rk)]
    if name == "subband":
        return [fil.subband(p[0], p[1], outfile_name=out, **rk)]
    if name == "zerodm":
        return [fil.remove_zerodm(outfile_name=out, **rk)]
    raise AssertionError(name)


def run_shard(shard: dict, ctx, res, only=None) -> None:
    import gc

    from sigpyproc.readers import FilReader

    wd = ctx.workdir("c07")
    nbits, N, C, name = shard["nbits"], shard["N"], shard["C"], shard["transform"]
    X = _input(nbits, N, C, name, ctx.seed, shard.get("variant"))
    paths = fx.make_fileset(wd, X, nbits, [N], fch1=1500.0, foff=-50.0, tsamp=1e-3)
    fil = FilReader(paths)
    delays = {dm: np.asarray(fil.header.get_dmdelays(dm)).astype(int) for dm in DMS}
    params = _params(name, nbits, C, N, shard["tier"])[shard["plo"] : shard["phi"]]
    site = {"invert": "Filterbank.invert_freq", "mask": "Filterbank.apply_channel_mask", "extract_samps": "Filterbank.extract_samps",
            "extract_chans": "Filterbank.extract_chans", "extract_bands": "Filterbank.extract_bands",
            "downsample": "Filterbank.downsample", "subband": "Filterbank.subband", "zerodm": "Filterbank.remove_zerodm"}[name]
    design = _design(N, "small" if ((C in (5, 7) or shard["nbits"] in (1, 2)) and shard["tier"] == "quick") else shard["tier"])
    for p in params:
        for g, st, ns in design:
            if only is not None and [p, g, st, ns] != only:
                continue
            s_eff = st or 0
            n_eff = (N - s_eff) if ns is None else ns
            Y = X[s_eff : s_eff + n_eff].astype(np.float64)
            exp = _expected(name, p, Y, nbits, C, delays)
            if exp is None:
                res.skip(f"{name}/out_of_scope")
                continue
            res.evaluations += 1
            case = {"shard": shard, "inner": [p, g, st, ns]}
            try:
                outs = _run_transform(fil, name, p, g, st, ns, wd)
                # writers the library does not close explicitly are finalised by reference counting on return
            except Exception as e:  # noqa: BLE001
                res.violation({"site": site, "symptom": f"raised {type(e).__name__}", "subrange": n_eff < N}, case, f"params={p}: {e!r}")
                continue
            ok = _check_outputs(name, outs, exp, res, case, site, p)
            for o in set(outs):
                try:
                    os.unlink(o)
                except OSError:
                    pass
            if ok:
                res.outcome(f"{name}/ok")
                if g < n_eff or n_eff < N:
                    res.nontrivial += 1
    res.sample({"shard": {k: shard[k] for k in ("nbits", "N", "C", "transform")}, "inner": [params[0] if params else None, 3, 2, N - 5]}, cap=1)


def _check_outputs(name, outs, exp, res, case, site, p) -> bool:
    if name == "extract_bands":
        need = p[1] // (p[2] or p[1])
        if len(outs) < need or len(outs) > len(exp):
            res.violation({"site": site, "symptom": "wrong number of output files"}, case, f"{len(outs)} files, need >= {need}")
            return False
        exp = exp[: len(outs)]
    elif len(outs) != len(exp):
        res.violation({"site": site, "symptom": "wrong number of output files"}, case, f"{len(outs)} files, expected {len(exp)}")
        return False
    # repeated channels write the same file twice: compare each name once, against the last expectation for that name
    for path, (C_out, nb_out, Z, tol) in zip(outs, exp):
        dec = _decode(path, res, case, site)
        if dec is None:
            return False
        f, arr, hl = dec
        if f["nbits"] != nb_out or f["nchans"] != C_out:
            res.violation({"site": site, "symptom": "declared depth/channel count differ from the transform's definition"}, case,
                          f"nbits={f['nbits']} nchans={f['nchans']} expected {nb_out}/{C_out}")
            return False
        if arr.shape != Z.shape:
            res.violation({"site": site, "symptom": "wrong number of output samples", "declared_nbits": nb_out}, case,
                          f"file holds {arr.shape[0]} samples x {arr.shape[1]} chans at its declared depth, definition gives {Z.shape}")
            return False
        if tol == 0:
            good = np.array_equal(arr, Z)
        elif tol >= 1.0:
            # one quantisation level, plus slack for the float32 bandpass/weights the library uses (errors ~1e-4)
            good = np.all(np.abs(arr - Z) <= tol + 1e-3)
            res.maximum("zerodm_abs_dev", float(np.max(np.abs(arr - Z))) if arr.size else 0.0)
        else:
            good = np.allclose(arr, Z, rtol=min(tol, 1e-6), atol=tol)
        if not good:
            bad = np.argwhere(~np.isclose(arr, Z, rtol=min(tol, 1e-6) if tol < 1 else 0, atol=tol + (1e-3 if tol >= 1 else 0)))[:1].tolist()
            res.violation({"site": site, "symptom": "wrong values"}, case,
                          f"params={p} first differing [sample,chan]={bad}; got {arr[:3].tolist()} want {Z[:3].tolist()}")
            return False
        # the library's own reader must agree with the independent decode
        try:
            hdr, larr = _library_read(path, path.endswith(".tim"))
        except Exception as e:  # noqa: BLE001
            res.violation({"site": site, "symptom": f"library reader raised {type(e).__name__} on the output"}, case, repr(e))
            return False
        if hdr.nsamples != Z.shape[0] or larr.shape != arr.shape or not np.array_equal(larr, arr):
            res.violation({"site": site, "symptom": "library reader disagrees with the raw decode of the output"}, case,
                          f"nsamples={hdr.nsamples} shape={larr.shape} vs raw {arr.shape}")
            return False
    return True
