"""C19 - parallel kernels give the same answer for every thread count and schedule.

Engine C: the model is each kernel's own Python definition (py_func) with the prange loop split
into prelude / body(i) / postlude; (1) independence of all iteration pairs from recorded access
sets, (2) exhaustive preemption-bounded schedule exploration on virtual threads, (3) all
iteration orders, (4) conformance of the model to the compiled kernel under 1..16 threads x
chunk sizes x repetitions.
"""
from __future__ import annotations

import itertools
from pathlib import Path

import numpy as np

PROP = "C19"
LEVEL = "model_checking"
NUM_THREADS = None  # leave numba's thread pool at the machine default
MAX_WORKERS = 6
RULE = (
    "kernels = every numba function in core/kernels.py compiled with parallel=True around a prange loop (discovered from the AST; currently "
    "11). Per kernel and per shape of a lattice (nchans, nsamps in {1,2,3,5,8}, factors, masks, delays): (1) read/write sets of every "
    "iteration are recorded on the kernel's own Python definition and ALL iteration pairs are checked for write-write and write-read "
    "overlap; (2) 2-3 virtual threads x <= 4 iterations, every assignment of iterations to threads, scheduling point before every access to "
    "an array written in the loop, all schedules with <= 2 (quick) / 3 (thorough) preemptions, every terminal state compared with the "
    "sequential result; (3) all permutations of <= 5 iterations; (4) compiled kernel under set_num_threads(1..max) x chunk sizes {0,1,2,5} x "
    "5 repetitions bit-identical to thread count 1, to py_func and to a numpy reference. Non-trivial = shapes with >= 2 iterations"
)
SCALE_LANE = 'one compiled case of ordinary size per kernel (16 387 spectra / 50 001 groups / 130 channels x 1031 samples) at 2, 3, 5, 7, 11, 16 threads x 3 chunk sizes x 2 repetitions, incl. a bandpass whose sum is exact only in sequential order'
ASSUMPTIONS = [
    "numba compiles the Python definition with array elements as the only state shared between prange iterations (scalars assigned in the loop body are private)",
    "native OpenMP/TBB schedules cannot be controlled from Python: they are enumerated on the model and only sampled on the compiled code (step 4 validates the model against the machine code)",
    "if the dependence relation between iterations is empty all interleavings are Mazurkiewicz-equivalent to the sequential one, so step 1 decides every schedule; step 2 produces the concrete racing schedule when it is not",
    "inputs are integer-valued / per-channel constant so that float32 and float64 intermediates coincide",
]
REQUIRED_OUTCOMES = ["independence/ok", "schedules/ok", "orders/ok", "conformance/ok", "conformance/large_ok", "split_conformance/ok"]

KERNELS = ["downsample_1d_mean_parallel", "downsample_2d_mean_parallel", "extract_tim", "extract_bpass", "mask_channels", "dedisperse", "invert_freq",
           "subband", "remove_zerodm", "compute_online_moments", "compute_online_moments_basic"]
IGNORED = {"simulate_ism": "simulation helper, not one of the kernels listed in the property"}


def bounds(tier: str) -> dict:
    return {"kernels": KERNELS, "preemption_bound": 2 if tier == "quick" else 3, "virtual_threads": [2, 3], "max_iterations_scheduled": 3 if tier == "quick" else 4, "moments_kernels_max_iterations": 2 if tier == "quick" else 3,
            "permutations_up_to": 5, "thread_counts": "1..numba.config.NUMBA_NUM_THREADS", "chunk_sizes": [0, 1, 2, 5], "repetitions": 5}


def shards(tier: str, seed: int) -> list:
    out = [{"kind": "discover"}]
    for k in KERNELS:
        out.append({"kind": "independence", "kernel": k})
        heavy = k.startswith("compute_online_moments")  # ~14 scheduling points per iteration
        for n in ((2, 3) if tier == "quick" else (2, 3, 4)):
            if heavy and n > (2 if tier == "quick" else 3):
                continue
            out.append({"kind": "schedules", "kernel": k, "bound": 2 if tier == "quick" else 3, "n": n})
    # one process for all compiled runs: each uses the whole numba thread pool, concurrent pools would only fight for the cores
    out.insert(1, {"kind": "conformance", "kernels": KERNELS})
    return out


# ------------------------------------------------------------------------------------------------
# kernel table: case -> (args, argnames, output selector, numpy reference)


def _labels(n, lo=1):
    return (np.arange(n, dtype=np.float32) % 13 + lo).astype(np.float32)


def _moments(nchans):
    from sigpyproc.core import kernels

    return np.zeros(nchans, dtype=kernels.moments_dtype)


def _cases(kernel: str, purpose: str):
    """Yield dicts {params, args(), names, outs, ref}. purpose in {'lattice','sched','conf'}."""
    sizes = {"lattice": [1, 2, 3, 5, 8], "sched": [2, 3, 4], "conf": [1, 2, 3, 17, 64, 257]}[purpose]
    if kernel == "downsample_1d_mean_parallel":
        for n in sizes:
            for f in ({1, 2, 3} if purpose != "conf" else {1, 3}):
                for extra in (0, 1):
                    L = n * f + (extra if f > 1 else 0)
                    x = _labels(L)
                    yield {"params": [n, f, extra], "args": lambda x=x, f=f: [x.copy(), f], "names": ["array", "factor"], "outs": "ret",
                           "ref": lambda x=x, f=f: [x[: (len(x) // f) * f].reshape(-1, f).astype(np.float64).mean(1).astype(np.float32)]}
    elif kernel == "downsample_2d_mean_parallel":
        for n1 in sizes:
            for f1, f2, d2 in ((1, 1, 3), (2, 1, 2), (1, 2, 4), (2, 3, 7)):
                d1 = n1 * f1 + (1 if f1 > 1 else 0)
                x = _labels(d1 * d2)
                def ref(x=x, f1=f1, f2=f2, d1=d1, d2=d2):
                    a = x.reshape(d1, d2).astype(np.float64)
                    m1, m2 = d1 // f1, d2 // f2
                    return [a[: m1 * f1, : m2 * f2].reshape(m1, f1, m2, f2).mean(axis=(1, 3)).astype(np.float32).ravel()]
                yield {"params": [n1, f1, f2, d2], "args": lambda x=x, f1=f1, f2=f2, d1=d1, d2=d2: [x.copy(), f1, f2, d1, d2],
                       "names": ["array", "factor1", "factor2", "dim1", "dim2"], "outs": "ret", "ref": ref}
    elif kernel == "extract_tim":
        for ns in sizes:
            for C in (1, 3):
                for index in (0, 2):
                    x = _labels(ns * C)
                    out0 = np.full(ns + index + 1, -1.0, dtype=np.float32)
                    def ref(x=x, C=C, ns=ns, index=index, out0=out0):
                        o = out0.copy()
                        o[index : index + ns] = x.reshape(ns, C).sum(1)
                        return [o]
                    yield {"params": [ns, C, index], "args": lambda x=x, out0=out0, C=C, ns=ns, index=index: [x.copy(), out0.copy(), C, ns, index],
                           "names": ["inarray", "outarray", "nchans", "nsamps", "index"], "outs": [1], "ref": ref}
    elif kernel == "extract_bpass":
        for C in sizes:
            for ns in (1, 3):
                x = _labels(ns * C)
                out0 = (np.arange(C, dtype=np.float32) * 2 + 1)
                yield {"params": [C, ns], "args": lambda x=x, out0=out0, C=C, ns=ns: [x.copy(), out0.copy(), C, ns],
                       "names": ["inarray", "outarray", "nchans", "nsamps"], "outs": [1],
                       "ref": lambda x=x, out0=out0, C=C, ns=ns: [out0 + x.reshape(ns, C).sum(0)]}
    elif kernel == "mask_channels":
        for C in sizes:
            for ns in (1, 3):
                x = _labels(ns * C)
                masks = [np.zeros(C, bool), np.ones(C, bool), (np.arange(C) % 2 == 0)]
                for mi, m in enumerate(masks):
                    def ref(x=x, m=m, C=C, ns=ns):
                        a = x.reshape(ns, C).copy()
                        a[:, m] = 9.0
                        return [a.ravel()]
                    yield {"params": [C, ns, mi], "args": lambda x=x, m=m, C=C, ns=ns: [x.copy(), m.copy(), np.float32(9.0), C, ns],
                           "names": ["array", "mask", "maskvalue", "nchans", "nsamps"], "outs": [0], "ref": ref}
    elif kernel in ("dedisperse", "subband"):
        for nout in sizes:
            for C, delays in ((1, [0]), (3, [0, 1, 2]), (4, [0, 0, 2, 3])):
                md = max(delays)
                ns = nout + md
                x = _labels(ns * C)
                d = np.array(delays, dtype=np.int32)
                if kernel == "dedisperse":
                    for index in (0, 1):
                        out0 = np.full(nout + index + 1, 0.5, dtype=np.float32)
                        def ref(x=x, d=d, C=C, ns=ns, nout=nout, index=index, out0=out0):
                            X = x.reshape(ns, C)
                            o = out0.copy()
                            for c in range(C):
                                o[index : index + nout] += X[d[c] : d[c] + nout, c]
                            return [o]
                        yield {"params": [nout, C, index], "args": lambda x=x, d=d, C=C, ns=ns, md=md, index=index, out0=out0: [x.copy(), out0.copy(), d.copy(), md, C, ns, index],
                               "names": ["inarray", "outarray", "delays", "maxdelay", "nchans", "nsamps", "index"], "outs": [1], "ref": ref}
                else:
                    for nsub in {1, C}:
                        c2s = (np.arange(C, dtype=np.int32) // (C // nsub)).astype(np.int32)
                        out0 = np.full(nout * nsub + 1, 0.25, dtype=np.float32)
                        def ref(x=x, d=d, C=C, ns=ns, nout=nout, nsub=nsub, c2s=c2s, out0=out0):
                            X = x.reshape(ns, C)
                            o = out0.copy()
                            for t in range(nout):
                                for c in range(C):
                                    o[nsub * t + c2s[c]] += X[t + d[c], c]
                            return [o]
                        yield {"params": [nout, C, nsub], "args": lambda x=x, d=d, c2s=c2s, C=C, ns=ns, md=md, nsub=nsub, out0=out0: [x.copy(), out0.copy(), d.copy(), c2s.copy(), md, C, nsub, ns],
                               "names": ["inarray", "outarray", "delays", "chan_to_sub", "maxdelay", "nchans", "nsubs", "nsamps"], "outs": [1], "ref": ref}
    elif kernel == "invert_freq":
        for ns in sizes:
            for C in (1, 2, 5):
                x = _labels(ns * C)
                yield {"params": [ns, C], "args": lambda x=x, C=C, ns=ns: [x.copy(), C, ns], "names": ["array", "nchans", "nsamps"], "outs": "ret",
                       "ref": lambda x=x, C=C, ns=ns: [x.reshape(ns, C)[:, ::-1].ravel().copy()]}
    elif kernel == "remove_zerodm":
        for ns in sizes:
            for C in (1, 2, 4):
                x = (_labels(ns * C) * 4).astype(np.float32)
                b = (np.arange(C, dtype=np.float32) + 1) * 8
                w = np.full(C, 1.0 / C if C in (1, 2, 4) else 0.25, dtype=np.float32)
                def ref(x=x, b=b, w=w, C=C, ns=ns):
                    X = x.reshape(ns, C).astype(np.float64)
                    return [((X - X.sum(1, keepdims=True) * w.astype(np.float64)) + b.astype(np.float64)).astype(np.float32).ravel()]
                yield {"params": [ns, C], "args": lambda x=x, b=b, w=w, C=C, ns=ns: [x.copy(), np.full(ns * C, -3.0, dtype=np.float32), b.copy(), w.copy(), C, ns],
                       "names": ["inarray", "outarray", "bpass", "chanwts", "nchans", "nsamps"], "outs": [1], "ref": ref}
    elif kernel in ("compute_online_moments", "compute_online_moments_basic"):
        full = kernel == "compute_online_moments"
        for C in sizes:
            for ns in (1, 3, 4):
                for flag in (0, 1):
                    vals = (np.arange(C, dtype=np.float32) - 1) * 2.5
                    x = np.tile(vals, ns).astype(np.float32)
                    def mk(C=C, flag=flag, vals=vals):
                        m = _moments(C)
                        if flag:
                            # a previous chunk of 2 samples with the same per-channel constant
                            m["count"] = 2
                            m["m1"] = vals
                            m["min"] = vals - 1
                            m["max"] = vals
                        return m
                    def ref(C=C, ns=ns, flag=flag, vals=vals, mk=mk, full=full):
                        m = mk()
                        m["count"] = (2 if flag else 0) + ns
                        m["m1"] = vals
                        m["min"] = (vals - 1) if flag else vals
                        m["max"] = vals
                        return [m]
                    yield {"params": [C, ns, flag], "args": lambda x=x, mk=mk, flag=flag: [x.copy(), mk(), flag], "names": ["array", "moments", "startflag"],
                           "outs": [1], "ref": ref}
    else:
        raise KeyError(kernel)


def _large_cases(kernel: str):
    """One case of ordinary size per kernel (thousands of iterations per thread): code selected by a size threshold, and per-thread partial results,
    only exist here. Data stay exact under the sequential definition; the time-reducing kernel gets +-2**26 excursions that are NOT exact under any
    regrouping of the sum."""
    NS = 16387
    if kernel == "downsample_1d_mean_parallel":
        x = _labels(50001 * 3 + 1)
        yield {"params": ["large", 50001, 3], "args": lambda: [x.copy(), 3], "names": ["array", "factor"], "outs": "ret"}
    elif kernel == "downsample_2d_mean_parallel":
        d1, d2 = 4099 * 2 + 1, 8
        x = _labels(d1 * d2)
        yield {"params": ["large", d1, d2], "args": lambda: [x.copy(), 2, 2, d1, d2], "names": ["array", "factor1", "factor2", "dim1", "dim2"], "outs": "ret"}
    elif kernel == "extract_tim":
        C = 16
        x = _labels(NS * C)
        out0 = np.full(NS + 1, -1.0, dtype=np.float32)
        yield {"params": ["large", NS, C], "args": lambda: [x.copy(), out0.copy(), C, NS, 0], "names": ["inarray", "outarray", "nchans", "nsamps", "index"], "outs": [1]}
    elif kernel == "extract_bpass":
        C = 8
        t = np.arange(NS)
        col = np.where(t % 1024 == 0, 2.0**26, np.where(t % 1024 == 256, -(2.0**26), np.where(t % 1024 < 256, 0.0, 1.0))).astype(np.float32)
        x = np.repeat(col[:, None], C, axis=1) * (1 + (np.arange(C) % 2))[None, :].astype(np.float32)
        out0 = np.zeros(C, dtype=np.float32)
        yield {"params": ["large_excursions", NS, C], "args": lambda: [x.ravel().copy(), out0.copy(), C, NS], "names": ["inarray", "outarray", "nchans", "nsamps"], "outs": [1]}
        x2 = _labels(5000 * 64)
        out2 = np.zeros(64, dtype=np.float32)
        yield {"params": ["large", 5000, 64], "args": lambda: [x2.copy(), out2.copy(), 64, 5000], "names": ["inarray", "outarray", "nchans", "nsamps"], "outs": [1]}
    elif kernel == "mask_channels":
        C, ns = 64, 5000
        x = _labels(ns * C)
        m = np.arange(C) % 3 == 0
        yield {"params": ["large", C, ns], "args": lambda: [x.copy(), m.copy(), np.float32(9.0), C, ns], "names": ["array", "mask", "maskvalue", "nchans", "nsamps"], "outs": [0]}
    elif kernel in ("dedisperse", "subband"):
        C = 8
        d = np.array([0, 1, 5, 9, 14, 20, 27, 35], dtype=np.int32)
        md = 35
        for nout in (NS, 5):  # 5: a tail block with fewer output samples than threads
            ns = nout + md
            x = _labels(ns * C)
            if kernel == "dedisperse":
                out0 = np.full(nout + 1, 0.5, dtype=np.float32)
                yield {"params": ["large", nout, C], "args": lambda x=x, out0=out0, ns=ns: [x.copy(), out0.copy(), d.copy(), md, C, ns, 0],
                       "names": ["inarray", "outarray", "delays", "maxdelay", "nchans", "nsamps", "index"], "outs": [1]}
            else:
                c2s = (np.arange(C, dtype=np.int32) // 4).astype(np.int32)
                out0 = np.full(nout * 2 + 1, 0.25, dtype=np.float32)
                yield {"params": ["large", nout, C], "args": lambda x=x, out0=out0, ns=ns: [x.copy(), out0.copy(), d.copy(), c2s.copy(), md, C, 2, ns],
                       "names": ["inarray", "outarray", "delays", "chan_to_sub", "maxdelay", "nchans", "nsubs", "nsamps"], "outs": [1]}
    elif kernel == "invert_freq":
        x = _labels(NS * 8)
        yield {"params": ["large", NS, 8], "args": lambda: [x.copy(), 8, NS], "names": ["array", "nchans", "nsamps"], "outs": "ret"}
    elif kernel == "remove_zerodm":
        C = 8
        x = (_labels(NS * C) * 8).astype(np.float32)
        b = (np.arange(C, dtype=np.float32) + 1) * 8
        w = np.full(C, 1.0 / C, dtype=np.float32)
        yield {"params": ["large", NS, C], "args": lambda: [x.copy(), np.full(NS * C, -3.0, dtype=np.float32), b.copy(), w.copy(), C, NS],
               "names": ["inarray", "outarray", "bpass", "chanwts", "nchans", "nsamps"], "outs": [1]}
    elif kernel in ("compute_online_moments", "compute_online_moments_basic"):
        C, ns = 130, 1031
        vals = (np.arange(C, dtype=np.float32) % 17 - 3) * 2.5
        x = np.tile(vals, ns).astype(np.float32)
        yield {"params": ["large", C, ns], "args": lambda: [x.copy(), _moments(C), 0], "names": ["array", "moments", "startflag"], "outs": [1]}


def _pyfunc(kernel):
    from sigpyproc.core import kernels

    return getattr(kernels, kernel).py_func, getattr(kernels, kernel)


def _collect(case, args, ret):
    if case["outs"] == "ret":
        outs = [ret]
    else:
        outs = [args[i] for i in case["outs"]]
    real = []
    for o in outs:
        a = o._a if hasattr(o, "_a") else o
        real.append(np.array(a, copy=True))
    return real


def _bytes(arrs):
    return b"|".join(a.tobytes() for a in arrs)


def _same(a, b):
    return len(a) == len(b) and all(x.shape == y.shape and x.dtype == y.dtype and x.tobytes() == y.tobytes() for x, y in zip(a, b))


def _run_split(sk, case, *, order=None, sched=None, hot=None):
    from vf.core import sched as S

    sk.tracer.reads, sk.tracer.writes, sk.tracer.nalloc = {}, {}, 0
    sk.tracer.hot = hot
    sk.tracer.sched = sched
    sk.runner.sched = sched
    sk.runner.order = order
    raw = case["args"]()
    args = S.wrap_args(sk, raw, case["names"])
    ret = sk.func(*args)
    return _collect(case, args, ret)


# ------------------------------------------------------------------------------------------------


def run_shard(shard: dict, ctx, res, only=None) -> None:
    import warnings

    warnings.filterwarnings("ignore")
    {"discover": _discover, "independence": _independence, "schedules": _schedules, "conformance": _conformance}[shard["kind"]](shard, ctx, res, only)


def _discover(shard, ctx, res, only):
    from vf.core import sched as S

    res.evaluations += 1
    src = (Path(ctx.repo) / "sigpyproc" / "core" / "kernels.py").read_text()
    found = S.find_parallel_kernels(src)
    unknown = sorted(set(found) - set(KERNELS) - set(IGNORED))
    gone = sorted(set(KERNELS) - set(found))
    if unknown:
        res.caps.append(f"parallel kernels without a harness (not explored): {unknown}")
        res.notes.append(f"new parallel kernels found in kernels.py: {unknown}")
    if gone:
        res.notes.append(f"kernels of the table that are no longer parallel prange kernels: {gone}")
    res.outcome("discover/ok")
    res.sample({"parallel_kernels_found": sorted(found), "ignored": IGNORED}, cap=1)


def _independence(shard, ctx, res, only):
    from vf.core import sched as S

    kernel = shard["kernel"]
    try:
        pyf, _disp = _pyfunc(kernel)
        sk = S.split_kernel(pyf, kernel)
    except Exception as e:  # noqa: BLE001
        # the source-level model cannot express this kernel (e.g. a prange loop inside another loop): not a violation by itself;
        # the kernel is left to the compiled conformance run and the gap is reported as a cap
        res.evaluations += 1
        res.outcome("independence/unsplittable")
        res.caps.append(f"{kernel}: python definition could not be split at its prange loop ({type(e).__name__}: {e}); only the compiled conformance run decides it")
        return
    if sk.carried:
        # a scalar (re)assigned in the body and defined before the loop is a numba reduction / carried variable: the nested-function model
        # cannot express it; it is left to the compiled conformance run and is not a violation by itself
        res.notes.append(f"{kernel}: loop body assigns names defined before the loop {sorted(sk.carried)} (scalar carried across iterations): undecided by the split model")
        res.outcome("independence/undecided_scalar_carried")
        res.evaluations += 1
        return
    for case in _cases(kernel, "lattice"):
        if only is not None and case["params"] != only:
            continue
        res.evaluations += 1
        cs = {"shard": shard, "inner": case["params"]}
        try:
            seq = _run_split(sk, case)
            its = list(sk.runner.last_iterations)
            conf = S.conflicts(sk.tracer)
            direct = pyf(*case["args"]())
        except Exception as e:  # noqa: BLE001
            res.violation({"site": f"kernels.{kernel}", "symptom": f"python definition raised {type(e).__name__}"}, cs, f"params {case['params']}: {e!r}")
            continue
        if conf:
            kind, loc, a, b = conf[0]
            res.violation({"site": f"kernels.{kernel}", "symptom": f"iterations are not independent ({kind})", "array": loc[0]}, cs,
                          f"params {case['params']}: iterations {a} and {b} both touch {loc} ({kind}); {len(conf)} conflicting locations")
            continue
        res.outcome("independence/ok")
        res.count("iteration_pairs", len(its) * (len(its) - 1) // 2)
        if len(its) >= 2:
            res.nontrivial += 1
        # the split function must compute what the untouched python definition computes, and the numpy reference
        raw2 = case["args"]()
        ret2 = pyf(*raw2)
        d = _collect(case, raw2, ret2)
        ref = case["ref"]()
        res.evaluations += 1
        if not _same(seq, d):
            res.violation({"site": "harness", "symptom": "split model differs from the kernel's python definition"}, cs, f"params {case['params']}")
            continue
        if not _same(seq, ref):
            res.violation({"site": f"kernels.{kernel}", "symptom": "python definition differs from the numpy reference"}, cs,
                          f"params {case['params']}: got {[a.tolist() for a in seq][:1]} want {[a.tolist() for a in ref][:1]}")
            continue
        res.outcome("split_conformance/ok")
        # all iteration orders
        n = len(its)
        nord = 0
        bad = None
        for perm in S.all_orders(n):
            nord += 1
            got = _run_split(sk, case, order=lambda k, perm=perm: list(perm))
            if not _same(got, seq):
                bad = perm
                break
        res.evaluations += nord
        res.count("orders", nord)
        if bad is not None:
            res.violation({"site": f"kernels.{kernel}", "symptom": "result depends on the order of the iterations"}, cs, f"params {case['params']} order {list(bad)}")
            continue
        res.outcome("orders/ok")
    res.sample({"shard": shard, "example_params": next(iter(_cases(kernel, "lattice")))["params"]}, cap=1)


def _assignments(n_iter: int, nthreads: int):
    """All assignments of iterations 0..n-1 to nthreads non-empty threads, up to renaming of the threads
    (labels in restricted-growth form); each thread runs its iterations in ascending order."""
    for labels in itertools.product(range(nthreads), repeat=n_iter):
        if len(set(labels)) != nthreads:
            continue
        firsts = [labels.index(t) for t in range(nthreads)]
        if firsts != sorted(firsts):
            continue
        yield [[i for i in range(n_iter) if labels[i] == t] for t in range(nthreads)]


def _schedules(shard, ctx, res, only):
    from vf.core import sched as S

    kernel, bound = shard["kernel"], shard["bound"]
    try:
        pyf, _ = _pyfunc(kernel)
        sk = S.split_kernel(pyf, kernel)
    except Exception:  # noqa: BLE001 - reported by the independence shard
        return
    if sk.carried:
        res.outcome("schedules/undecided_scalar_carried")
        return
    total_sched = 0
    done_sizes = set()
    for case in _cases(kernel, "sched"):
        its_probe = None
        if only is not None and case["params"] != only[0]:
            continue
        try:
            seq = _run_split(sk, case)
        except Exception:  # noqa: BLE001
            continue
        its_probe = list(sk.runner.last_iterations)
        n = len(its_probe)
        # two structurally different cases per iteration count; n <= 3 in quick, <= 4 in thorough
        if n != shard["n"] or sum(1 for k in done_sizes if k[0] == n) >= 2:
            continue
        done_sizes.add((n, tuple(case["params"])))
        hot = S.written_arrays(sk.tracer)
        for nthreads in (2, 3):
            if nthreads > n:
                continue
            for assignment in _assignments(n, nthreads):
                if only is not None and assignment != only[1]:
                    continue
                cs = {"shard": shard, "inner": [case["params"], assignment]}

                def once(s, case=case, hot=hot):
                    try:
                        return _bytes(_run_split(sk, case, sched=s, hot=hot))
                    except Exception as e:  # noqa: BLE001
                        return f"EXC:{type(e).__name__}:{e}".encode()

                r = S.explore(once, assignment, bound, cap=30000)
                total_sched += r.schedules
                res.evaluations += r.schedules
                res.count("schedules", r.schedules)
                res.maximum("max_scheduling_points", r.max_points)
                if r.capped:
                    res.caps.append(f"{kernel}: schedule cap hit at bound {bound} for params {case['params']}")
                if r.diverged:
                    res.violation({"site": "harness", "symptom": "schedule replay diverged"}, cs, f"{r.diverged} executions")
                    continue
                want = _bytes(seq)
                wrong = [k for k in r.outcomes if k != want]
                if wrong:
                    choices = r.outcomes[wrong[0]]
                    res.violation({"site": f"kernels.{kernel}", "symptom": "a schedule produces a result different from the sequential one"}, cs,
                                  f"params {case['params']} threads {assignment}: {len(r.outcomes)} distinct outcomes over {r.schedules} schedules (bound {bound}); "
                                  f"failing schedule choices {choices[:60]}")
                    continue
                # determinism: replay one recorded non-trivial schedule twice
                some = next(iter(r.outcomes.values()))
                a = once(S.Scheduler(assignment, some))
                b = once(S.Scheduler(assignment, some))
                if a != b or a != want:
                    res.violation({"site": "harness", "symptom": "replaying a recorded schedule is not deterministic"}, cs, "")
                    continue
                res.outcome("schedules/ok")
                res.nontrivial += 1
                if nthreads == 2 and r.schedules > 3:
                    longest = max(r.outcomes.values(), key=len)
                    res.sample({"kernel": kernel, "params": case["params"], "threads_run_iterations": assignment, "schedules": r.schedules,
                                "scheduling_points": r.max_points, "one_schedule_choices": longest[:40]}, cap=2)
    res.sample({"shard": shard, "schedules_explored": total_sched}, cap=1)


def _conformance(shard, ctx, res, only):
    import numba

    for kernel in shard["kernels"]:
        _conformance_one(kernel, shard, res, only)


def _conformance_one(kernel, shard, res, only):
    import numba

    pyf, disp = _pyfunc(kernel)
    maxt = int(numba.config.NUMBA_NUM_THREADS)
    counts = sorted(set(range(1, maxt + 1)))
    chunks = [0, 1, 2, 5]
    res.count("max_threads", 0)
    res.maximum("thread_counts_covered", len(counts))
    try:
        for case in _cases(kernel, "conf"):
            if only is not None and [kernel, case["params"]] != only:
                continue
            cs = {"shard": shard, "inner": [kernel, case["params"]]}
            raw = case["args"]()
            retp = pyf(*raw)
            py = _collect(case, raw, retp)
            ref = case["ref"]()
            numba.set_num_threads(1)
            raw = case["args"]()
            base = _collect(case, raw, disp(*raw))
            res.evaluations += 1
            if not _same(base, py) or not _same(base, ref):
                res.violation({"site": f"kernels.{kernel}", "symptom": "compiled kernel differs from its python definition / numpy reference on exact inputs"}, cs,
                              f"params {case['params']}: compiled {[a.tolist() for a in base][:1]} python {[a.tolist() for a in py][:1]} reference {[a.tolist() for a in ref][:1]}")
                continue
            bad = None
            for nt in counts:
                numba.set_num_threads(nt)
                for ch in chunks:
                    for rep in range(5 if nt > 1 else 1):
                        numba.set_parallel_chunksize(ch)
                        raw = case["args"]()
                        got = _collect(case, raw, disp(*raw))
                        numba.set_parallel_chunksize(0)
                        res.evaluations += 1
                        res.count("compiled_runs")
                        if not _same(got, base):
                            bad = (nt, ch, rep)
                            break
                    if bad:
                        break
                if bad:
                    break
            if bad:
                res.violation({"site": f"kernels.{kernel}", "symptom": "compiled result depends on thread count / chunk size / repetition"}, cs,
                              f"params {case['params']}: threads={bad[0]} chunksize={bad[1]} repetition={bad[2]}")
                continue
            res.outcome("conformance/ok")
            res.nontrivial += 1
        # ordinary sizes: python definition (sequential) vs compiled at 1 thread vs compiled at several thread counts / chunk sizes
        for case in _large_cases(kernel):
            if only is not None and [kernel, case["params"]] != only:
                continue
            cs = {"shard": shard, "inner": [kernel, case["params"]]}
            raw = case["args"]()
            py = _collect(case, raw, pyf(*raw))
            numba.set_num_threads(1)
            raw = case["args"]()
            base = _collect(case, raw, disp(*raw))
            res.evaluations += 1
            if not _same(base, py):
                res.violation({"site": f"kernels.{kernel}", "symptom": "compiled kernel differs from its python definition / numpy reference on exact inputs", "size": "large"}, cs,
                              f"params {case['params']}")
                continue
            bad = None
            for nt in sorted({2, 3, 5, 7, 11, maxt} & set(counts)):
                numba.set_num_threads(nt)
                for ch in (0, 5, 1000):
                    for rep in range(2):
                        numba.set_parallel_chunksize(ch)
                        raw = case["args"]()
                        got = _collect(case, raw, disp(*raw))
                        numba.set_parallel_chunksize(0)
                        res.evaluations += 1
                        res.count("compiled_runs")
                        if not _same(got, base):
                            bad = bad or (nt, ch, rep)
            if bad:
                res.violation({"site": f"kernels.{kernel}", "symptom": "compiled result depends on thread count / chunk size / repetition", "size": "large"}, cs,
                              f"params {case['params']}: threads={bad[0]} chunksize={bad[1]} repetition={bad[2]}")
                continue
            res.outcome("conformance/large_ok")
            res.nontrivial += 1
    finally:
        numba.set_num_threads(maxt)
    res.sample({"kernel": kernel, "thread_counts": [counts[0], counts[-1]], "chunks": chunks}, cap=1)


def finalize(total, ctx) -> dict:
    sch = int(total.counters.get("schedules", 0))
    pairs = int(total.counters.get("iteration_pairs", 0))
    runs = int(total.counters.get("compiled_runs", 0))
    return {"states": max(1, pairs), "transitions": max(1, sch), "schedules": sch, "iteration_pairs_checked": pairs,
            "traces_validated_against_impl": runs,
            "explanation": "states = iteration pairs whose access sets were intersected; transitions = complete schedules executed on the split python definition; "
                           "traces_validated_against_impl = runs of the compiled kernel (thread counts x chunk sizes x repetitions) compared bit-for-bit with the model"}
