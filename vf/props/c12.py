"""C12 - FFT-based operations equal their direct time-domain definitions.

Engine A over all lengths: rfft/ifft round trip, Parseval, DFT sum, fftconvolve vs full linear
convolution for all (n, m), correlate vs full correlation, amplitude spectrum.
"""
from __future__ import annotations

import numpy as np

PROP = "C12"
LEVEL = "exploration"
RULE = (
    "every length n = 1..Nmax (64 quick / 256 thorough) x data classes {constant, impulse at every position (n<=32), alternating, "
    "large dynamic range, seeded normal}: rfft().ifft() == zero-padded input, Parseval, spectrum == float64 DFT sum, form_spec == |bin|; "
    "every pair 1 <= m <= n <= Mmax (48 / 96): kernels.fftconvolve == np.convolve (float64), TimeSeries.correlate == full correlation at "
    "lags -(m-1)..n-1; the same identities on series of 131073, 262144 and 300001 samples (thorough: up to 2**20) against a float64 FFT, and a 70 001 x 513 convolution/correlation against direct float64 sums. Non-trivial = n >= 2; lengths whose FFT size is odd or not equal to n are counted separately"
)
SCALE_LANE = 'series of 131073, 262144, 300001 samples (thorough up to 2**20) against a float64 FFT; a 70 001 x 513 convolution and correlation against direct float64 sums'
ASSUMPTIONS = [
    "absolute tolerance 16*eps32*log2(n+1)*||x||_2 per element (for convolution/correlation ||a||_2*||b||_2): float32 FFT rounding, calibrated (observed/limit is recorded)",
    "data values come from five classes drawn from VERIF_SEED; the enumerated dimension is the length (and the kernel length)",
]
REQUIRED_OUTCOMES = ["roundtrip/ok", "roundtrip/odd_fft_size", "roundtrip/padded", "parseval/ok", "dft/ok", "mspec/ok", "convolve/ok", "correlate/ok", "long_series/ok", "long_convolve/ok", "roundtrip/object_reuse_ok"]

EPS32 = float(np.finfo(np.float32).eps)


def bounds(tier: str) -> dict:
    return {"Nmax": 64 if tier == "quick" else 256, "Mmax": 48 if tier == "quick" else 96}


def shards(tier: str, seed: int) -> list:
    b = bounds(tier)
    out = []
    step = 8
    for lo in range(1, b["Nmax"] + 1, step):
        out.append({"kind": "series", "lo": lo, "hi": min(b["Nmax"], lo + step - 1)})
    for n in range(1, b["Mmax"] + 1):
        out.append({"kind": "conv", "n": n})
    # scale lane: series of 2**17 .. 2**20 samples (spectra of more than 65536 and 131072 bins), convolutions of 70 001 x 513
    for n in ((131073, 262144, 300001) if tier == "quick" else (65537, 131073, 262144, 300001, 524288, 1000003, 1048576)):
        out.append({"kind": "long", "n": n})
    return out


def _classes(n: int, seed: int):
    rng = np.random.default_rng([seed, n])
    yield "constant", np.full(n, 3.25, dtype=np.float32)
    yield "zeros", np.zeros(n, dtype=np.float32)
    if n <= 32:
        for p in range(n):
            x = np.zeros(n, dtype=np.float32)
            x[p] = 2.0
            yield f"impulse@{p}", x
    yield "alternating", (np.where(np.arange(n) % 2, -1.5, 1.5)).astype(np.float32)
    yield "dynamic", (1e6 + rng.normal(0, 1, n)).astype(np.float32)
    yield "normal", rng.normal(0, 1, n).astype(np.float32)


def _hdr(n):
    from sigpyproc.header import Header

    return Header(filename="x.tim", data_type="time series", nchans=1, foff=-1.0, fch1=1400.0, nbits=32, tsamp=1e-3, tstart=58000.0, nsamples=n)


def run_shard(shard: dict, ctx, res, only=None) -> None:
    if shard["kind"] == "series":
        _series(shard, ctx, res, only)
    elif shard["kind"] == "long":
        _long(shard, ctx, res, only)
    else:
        _conv(shard, ctx, res, only)


def _long(shard, ctx, res, only):
    """Long series: the float64 FFT stands in for the DFT sum (validated against the explicit sum on a short array first)."""
    from sigpyproc.core import kernels
    from sigpyproc.timeseries import TimeSeries

    n = shard["n"]
    rng = np.random.default_rng([ctx.seed, n, 3])
    probe = rng.normal(0, 1, 45)
    k = np.arange(23)[:, None]
    t = np.arange(45)[None, :]
    if not np.allclose(np.fft.rfft(probe), (probe[None, :] * np.exp(-2j * np.pi * k * t / 45)).sum(1), rtol=0, atol=1e-11):
        res.evaluations += 1
        res.violation({"site": "harness", "symptom": "float64 FFT reference != DFT sum"}, {"shard": shard, "inner": None}, "")
        return
    for cname in ("normal", "offset_tone"):
        if only is not None and [cname] != only:
            continue
        case = {"shard": shard, "inner": [cname]}
        rng = np.random.default_rng([ctx.seed, n, 3, len(cname)])  # per class: a replay of one class sees the same data
        x = rng.normal(0, 1, n).astype(np.float32)
        if cname == "offset_tone":
            x = (5.0 + x + 3.0 * np.where(np.arange(n) % 2, -1.0, 1.0) + np.cos(2 * np.pi * 0.25 * np.arange(n))).astype(np.float32)
        res.evaluations += 1
        try:
            ts = TimeSeries(x, _hdr(n))
            fs = ts.rfft()
            ng = int(fs.header.nsamples)
            X = np.asarray(fs.data, dtype=np.complex128)
            ms = np.asarray(fs.form_spec().data, dtype=np.float64)
            back = np.asarray(fs.ifft().data, dtype=np.float64)
        except Exception as e:  # noqa: BLE001
            res.violation({"site": "TimeSeries.rfft/form_spec/ifft", "symptom": f"raised {type(e).__name__} on a long series"}, case, f"n={n}: {e!r}")
            continue
        xp = np.zeros(ng)
        xp[:n] = x
        norm = float(np.linalg.norm(xp))
        D = np.fft.rfft(xp)
        # norm-wise float32 FFT bound plus the representation error of the largest bins (DC and Nyquist of the offset/tone class are ~1e6)
        lim = 16 * EPS32 * np.log2(n + 1) * norm + 2 * EPS32 * float(np.max(np.abs(D)))
        bad = None
        if ng < n or X.size != ng // 2 + 1:
            bad = ("TimeSeries.rfft", "transform length/bins inconsistent", f"n={n} n_fft={ng} bins={X.size}")
        elif not (float(np.max(np.abs(X - D))) <= lim):
            j = int(np.argmax(np.abs(X - D)))
            bad = ("TimeSeries.rfft", "spectrum differs from the discrete Fourier sum", f"n={n}: bin {j}: got {X[j]} want {D[j]}")
        elif ms.shape != (X.size,) or not (float(np.max(np.abs(ms - np.abs(X)))) <= 4 * EPS32 * max(float(np.max(np.abs(X))), 1e-30)):
            j = int(np.argmax(np.abs(ms - np.abs(X)))) if ms.shape == (X.size,) else -1
            bad = ("FourierSeries.form_spec", "amplitude spectrum differs from |bin|", f"n={n}: {ms.shape[0]} values for {X.size} bins; worst bin {j}: got {ms[j] if j >= 0 else None} want {abs(X[j]) if j >= 0 else None}")
        elif back.shape != (ng,) or not (float(np.max(np.abs(back - xp))) <= 64 * EPS32 * np.log2(n + 1) * float(np.max(np.abs(xp)))):
            bad = ("FourierSeries.ifft", "round trip differs from the zero-padded input", f"n={n} n_fft={ng} got length {back.shape}")
        if bad:
            res.violation({"site": bad[0], "symptom": bad[1], "long": True}, case, bad[2])
            continue
        res.outcome("long_series/ok")
        res.nontrivial += 1
        # a long convolution / correlation against float64 FFT-free evaluation (np.convolve on float64 is a direct sum)
        res.evaluations += 1
        m = 513
        a, b = x[:70001], rng.normal(0, 1, m).astype(np.float32)
        try:
            got = np.asarray(kernels.fftconvolve(a, b), dtype=np.float64)
            gotc = np.asarray(TimeSeries(a, _hdr(a.size)).correlate(b).data, dtype=np.float64)
        except Exception as e:  # noqa: BLE001
            res.violation({"site": "kernels.fftconvolve", "symptom": f"raised {type(e).__name__} on a long series"}, case, repr(e))
            continue
        a64, b64 = a.astype(np.float64), b.astype(np.float64)
        want, wantc = np.convolve(a64, b64), np.correlate(a64, b64, mode="full")
        lim2 = 16 * EPS32 * np.log2(a.size + m) * float(np.linalg.norm(a64) * np.linalg.norm(b64))
        if got.shape != want.shape or not (float(np.max(np.abs(got - want))) <= lim2):
            res.violation({"site": "kernels.fftconvolve", "symptom": "differs from the full linear convolution", "long": True}, case, f"n={a.size} m={m}")
        elif gotc.shape != wantc.shape or not (float(np.max(np.abs(gotc - wantc))) <= lim2):
            res.violation({"site": "TimeSeries.correlate", "symptom": "differs from the full correlation at lags -(m-1)..n-1", "long": True}, case, f"n={a.size} m={m}")
        else:
            res.outcome("long_convolve/ok")
            res.nontrivial += 1


def _series(shard, ctx, res, only):
    from sigpyproc.timeseries import TimeSeries

    for n in range(shard["lo"], shard["hi"] + 1):
        for cname, x in _classes(n, ctx.seed):
            if only is not None and [n, cname] != only:
                continue
            case = {"shard": shard, "inner": [n, cname]}
            norm = float(np.linalg.norm(x.astype(np.float64)))
            lim = 16 * EPS32 * np.log2(n + 1) * max(norm, 1e-30)
            res.evaluations += 1
            try:
                ts = TimeSeries(x, _hdr(n))
                fs = ts.rfft()
            except Exception as e:  # noqa: BLE001
                res.violation({"site": "TimeSeries.rfft", "symptom": f"raised {type(e).__name__}"}, case, repr(e))
                continue
            ng = int(fs.header.nsamples)
            X = np.asarray(fs.data, dtype=np.complex128)
            if ng < n or X.size != ng // 2 + 1:
                res.violation({"site": "TimeSeries.rfft", "symptom": "transform length/bins inconsistent"}, case, f"n={n} n_fft={ng} bins={X.size}")
                continue
            xp = np.zeros(ng)
            xp[:n] = x
            # DFT sum in float64
            k = np.arange(ng // 2 + 1)[:, None]
            t = np.arange(ng)[None, :]
            D = (xp[None, :] * np.exp(-2j * np.pi * k * t / ng)).sum(1)
            dev = float(np.max(np.abs(X - D)))
            res.maximum("dft_dev_over_limit", dev / lim)
            if not (dev <= lim):
                res.violation({"site": "TimeSeries.rfft", "symptom": "spectrum differs from the discrete Fourier sum"}, case, f"n={n} n_fft={ng} max dev {dev:.3e} limit {lim:.3e}")
                continue
            res.outcome("dft/ok")
            # Parseval
            w = np.full(X.size, 2.0)
            w[0] = 1.0
            if ng % 2 == 0:
                w[-1] = 1.0
            e_t = float((xp**2).sum())
            e_f = float((w * np.abs(X) ** 2).sum() / ng)
            plim = 64 * EPS32 * np.log2(n + 1) * max(e_t, 1e-30)
            res.maximum("parseval_dev_over_limit", abs(e_t - e_f) / plim)
            if not (abs(e_t - e_f) <= plim):
                res.violation({"site": "TimeSeries.rfft", "symptom": "Parseval identity violated"}, case, f"time {e_t!r} freq {e_f!r}")
                continue
            res.outcome("parseval/ok")
            # amplitude spectrum
            res.evaluations += 1
            try:
                ms = np.asarray(fs.form_spec().data, dtype=np.float64)
                mdev = float(np.max(np.abs(ms - np.abs(np.asarray(fs.data, dtype=np.complex128)))))
                if ms.shape != (X.size,) or not (mdev <= 4 * EPS32 * max(float(np.max(np.abs(X))), 1e-30)):
                    res.violation({"site": "FourierSeries.form_spec", "symptom": "amplitude spectrum differs from |bin|"}, case, f"max dev {mdev:.3e}")
                else:
                    res.outcome("mspec/ok")
            except Exception as e:  # noqa: BLE001
                res.violation({"site": "FourierSeries.form_spec", "symptom": f"raised {type(e).__name__}"}, case, repr(e))
            # round trip
            res.evaluations += 1
            try:
                back = fs.ifft()
            except Exception as e:  # noqa: BLE001
                res.violation({"site": "FourierSeries.ifft", "symptom": f"raised {type(e).__name__}", "odd_fft_size": bool(ng % 2), "n==1": n == 1}, case,
                              f"n={n} n_fft={ng}: {e!r}")
                continue
            b = np.asarray(back.data, dtype=np.float64)
            if b.shape != (ng,):
                res.violation({"site": "FourierSeries.ifft", "symptom": "round trip has the wrong length"}, case, f"n={n} n_fft={ng} got {b.shape}")
                continue
            rdev = float(np.max(np.abs(b - xp)))
            res.maximum("roundtrip_dev_over_limit", rdev / lim)
            if not (rdev <= lim):
                res.violation({"site": "FourierSeries.ifft", "symptom": "round trip differs from the zero-padded input"}, case, f"n={n} max dev {rdev:.3e} limit {lim:.3e}")
                continue
            # user-supplied transforms (documented signatures fftn(array, n), ifftn(array, n)) must give the same round trip
            try:
                b2 = np.asarray(ts.rfft(np.fft.rfft).ifft(np.fft.irfft).data, dtype=np.float64)
                if b2.shape != (ng,) or not (float(np.max(np.abs(b2 - xp))) <= lim):
                    res.violation({"site": "TimeSeries.rfft/FourierSeries.ifft", "symptom": "round trip with user-supplied numpy transforms differs from the zero-padded input"}, case,
                                  f"n={n} n_fft={ng} got length {b2.shape}")
                    continue
            except Exception as e:  # noqa: BLE001
                res.violation({"site": "TimeSeries.rfft/FourierSeries.ifft", "symptom": f"raised {type(e).__name__} with user-supplied numpy transforms"}, case, repr(e))
                continue
            # the same object transformed again after its samples were refilled in place, and after the first returned spectrum was edited in place:
            # every call must describe the samples the series holds at that moment
            if cname in ("normal", "constant") and n >= 2:
                res.evaluations += 1
                try:
                    ts3 = TimeSeries(x.copy(), _hdr(n))
                    first = ts3.rfft()
                    y = (x[::-1] * np.float32(0.5) + np.float32(1.25)).astype(np.float32)
                    ts3.data[:] = y
                    np.asarray(first.data)[:] = 0
                    second = np.asarray(ts3.rfft().data, dtype=np.complex128)
                    yp = np.zeros(ng)
                    yp[:n] = y
                    Dy = (yp[None, :] * np.exp(-2j * np.pi * k * t / ng)).sum(1)
                    if second.shape != Dy.shape or not (float(np.max(np.abs(second - Dy))) <= 16 * EPS32 * np.log2(n + 1) * max(float(np.linalg.norm(yp)), 1e-30)):
                        res.violation({"site": "TimeSeries.rfft", "symptom": "second transform of the same object does not describe its current samples"}, case, f"n={n}")
                        continue
                    res.outcome("roundtrip/object_reuse_ok")
                except Exception as e:  # noqa: BLE001
                    res.violation({"site": "TimeSeries.rfft", "symptom": f"raised {type(e).__name__} on a second transform of the same object"}, case, repr(e))
                    continue
            res.outcome("roundtrip/ok")
            if ng % 2:
                res.outcome("roundtrip/odd_fft_size")
            if ng != n:
                res.outcome("roundtrip/padded")
            if n >= 2:
                res.nontrivial += 1
    res.sample({"shard": shard, "inner": [shard["lo"], "normal"]}, cap=1)


def _conv(shard, ctx, res, only):
    from sigpyproc.core import kernels
    from sigpyproc.timeseries import TimeSeries

    n = shard["n"]
    rng = np.random.default_rng([ctx.seed, n, 7])
    for m in range(1, n + 1):
        for cname in ("normal", "dynamic", "impulse_edges", "zero_kernel", "zero_both", "tiny", "huge"):
            if only is not None and [m, cname] != only:
                continue
            if cname == "normal":
                a, b = rng.normal(0, 1, n).astype(np.float32), rng.normal(0, 1, m).astype(np.float32)
            elif cname == "dynamic":
                a, b = (1e4 + rng.normal(0, 1, n)).astype(np.float32), rng.uniform(0, 1, m).astype(np.float32)
            elif cname == "zero_kernel":
                a, b = rng.normal(0, 1, n).astype(np.float32), np.zeros(m, dtype=np.float32)
            elif cname == "zero_both":
                a, b = np.zeros(n, dtype=np.float32), np.zeros(m, dtype=np.float32)
            elif cname == "tiny":
                a, b = (1e-12 * rng.normal(0, 1, n)).astype(np.float32), (1e-12 * rng.normal(0, 1, m)).astype(np.float32)
            elif cname == "huge":
                a, b = (1e12 * rng.normal(0, 1, n)).astype(np.float32), (1e3 * rng.normal(0, 1, m)).astype(np.float32)
            else:
                a = np.zeros(n, dtype=np.float32)
                a[0], a[-1] = 1.0, a[-1] + 2.0
                b = np.zeros(m, dtype=np.float32)
                b[0], b[-1] = 3.0, b[-1] + 5.0
            case = {"shard": shard, "inner": [m, cname]}
            lim = 16 * EPS32 * np.log2(n + m) * max(float(np.linalg.norm(a.astype(np.float64)) * np.linalg.norm(b.astype(np.float64))), 1e-30)
            res.evaluations += 1
            try:
                got = np.asarray(kernels.fftconvolve(a, b), dtype=np.float64)
                got2 = np.asarray(kernels.fftconvolve(b, a), dtype=np.float64)
            except Exception as e:  # noqa: BLE001
                res.violation({"site": "kernels.fftconvolve", "symptom": f"raised {type(e).__name__}"}, case, repr(e))
                continue
            want = np.convolve(a.astype(np.float64), b.astype(np.float64))
            if got.shape != want.shape or got2.shape != want.shape:
                res.violation({"site": "kernels.fftconvolve", "symptom": "wrong output length"}, case, f"n={n} m={m}: {got.shape} / {got2.shape} vs {want.shape}")
                continue
            dev = max(float(np.max(np.abs(got - want))), float(np.max(np.abs(got2 - want))))
            res.maximum("convolve_dev_over_limit", dev / lim)
            if not (dev <= lim):
                res.violation({"site": "kernels.fftconvolve", "symptom": "differs from the full linear convolution"}, case, f"n={n} m={m} max dev {dev:.3e} limit {lim:.3e}")
                continue
            res.outcome("convolve/ok")
            res.nontrivial += 1
            # correlation through the TimeSeries API (both ndarray and TimeSeries arguments)
            res.evaluations += 1
            try:
                ts = TimeSeries(a, _hdr(n))
                c1 = ts.correlate(b)
                c2 = ts.correlate(TimeSeries(b, _hdr(m)))
            except Exception as e:  # noqa: BLE001
                res.violation({"site": "TimeSeries.correlate", "symptom": f"raised {type(e).__name__}"}, case, repr(e))
                continue
            wantc = np.correlate(a.astype(np.float64), b.astype(np.float64), mode="full")
            g1, g2 = np.asarray(c1.data, dtype=np.float64), np.asarray(c2.data, dtype=np.float64)
            if g1.shape != wantc.shape or c1.header.nsamples != wantc.size:
                res.violation({"site": "TimeSeries.correlate", "symptom": "wrong output length"}, case, f"{g1.shape} vs {wantc.shape}")
                continue
            devc = max(float(np.max(np.abs(g1 - wantc))), float(np.max(np.abs(g2 - wantc))))
            res.maximum("correlate_dev_over_limit", devc / lim)
            if not (devc <= lim):
                res.violation({"site": "TimeSeries.correlate", "symptom": "differs from the full correlation at lags -(m-1)..n-1"}, case,
                              f"n={n} m={m} max dev {devc:.3e} limit {lim:.3e}")
                continue
            res.outcome("correlate/ok")
            res.nontrivial += 1
    res.sample({"shard": shard, "inner": [max(1, n // 2), "normal"]}, cap=1)
