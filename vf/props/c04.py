"""C04 - what is written is what is read back, for every format and sample depth.

Engine A: depth x in-memory dtype x shape x value class through prep_outfile/cwrite -> FilReader;
FilterbankBlock.to_file; TimeSeries .tim / .dat+.inf; FourierSeries .spec / .fft+.inf, all lengths.
"""
from __future__ import annotations

import os

import numpy as np

from vf.core import fixtures as fx

PROP = "C04"
LEVEL = "exploration"
RULE = (
    "complete enumeration of (output depth, in-memory dtype, nsamps, nchans, value class) for prep_outfile/cwrite, of "
    "(nchans, nsamps) for FilterbankBlock.to_file, of every composition of ns samples into consecutive cwrite calls on one writer, one write of 2**20 + 12 350 elements per (depth, dtype) alone and followed by a short write, and of all series lengths 1..Lmax x value classes for .tim, .dat/.inf, "
    ".spec, .fft/.inf (series headers carrying the depth of a parent filterbank: 32, 8, 16, 2); each call either raises (refusal) or the file has exactly hdrlen + n*C*nbits/8 bytes and reads back "
    "bit-identical with tsamp/tstart/dm preserved. Non-trivial = in-memory dtype differs from the on-disk type, or a "
    "sub-byte depth, or a series of length >= 2"
)
SCALE_LANE = 'one cwrite of 2**20 + 12 350 elements per (depth, in-memory dtype), alone and followed by a 5-sample write; series of 99 999 .. 1 234 567 samples (thorough 16 777 217) through .tim/.dat/.spec/.fft'
ASSUMPTIONS = [
    "only values representable at the output depth are written (the statement covers nothing else)",
    "textual .inf metadata compared to 1e-12 relative (tsamp, dm) and 1e-10 d (tstart)",
    "header.nsamples of a spectrum is not asserted (the statement does not define it)",
]
REQUIRED_OUTCOMES = ["cwrite/roundtrip", "cwrite/sequence_roundtrip", "cwrite/large_roundtrip", "cwrite/refused", "block/roundtrip", "tim/roundtrip", "dat/roundtrip", "spec/roundtrip", "fft/roundtrip"]

DTYPES = ["uint8", "uint16", "int64", "float32", "float64"]


def bounds(tier: str) -> dict:
    return {"depths": [1, 2, 4, 8, 16, 32], "dtypes": DTYPES, "max_nsamps": 4 if tier == "quick" else 8,
            "series_max": 16 if tier == "quick" else 64}


def shards(tier: str, seed: int) -> list:
    b = bounds(tier)
    out = [{"kind": "cwrite", "nbits": nb, "max_nsamps": b["max_nsamps"]} for nb in b["depths"]]
    out.append({"kind": "block", "max_nsamps": b["max_nsamps"] + 2})
    step = 8
    for lo in range(1, b["series_max"] + 1, step):
        out.append({"kind": "series", "lo": lo, "hi": min(lo + step - 1, b["series_max"])})
    # sample counts around powers of ten: the .inf file stores the count as text
    for n in (99999, 100000, 999999, 1000000, 1234567) + ((16777217,) if tier == "thorough" else ()):
        out.append({"kind": "series", "lo": n, "hi": n, "big": True})
    return out


def _mk_header(wd, nchans: int, nbits: int, *, data_type: int = 1, tsamp=0.000256, tstart=58123.456789012345, dm=0.0):
    from sigpyproc.header import Header

    p = str(wd / f"tmpl_{nchans}_{nbits}_{data_type}.fil")
    extra = [("refdm", float(dm))] if dm else None
    fx.write_fil(p, np.zeros((1, nchans), dtype=np.uint8), 8, fch1=1400.0, foff=-0.5, tsamp=tsamp, tstart=tstart,
                 data_type=data_type, extra=extra, fields=None)
    # template is an 8-bit file with `nchans` channels; callers override nbits through prep_outfile
    return Header.from_sigproc(p)


def _values(nbits: int, dtype: str, n: int, vclass: str, seed: int):
    """Values representable at `nbits` and in `dtype`; None if the class does not apply."""
    dt = np.dtype(dtype)
    hi = (1 << nbits) - 1 if nbits < 32 else None
    if dt == np.uint8 and hi is not None:
        hi = min(hi, 255)
    if vclass == "min":
        return np.zeros(n, dtype=dt)
    if vclass == "max":
        if nbits == 32:
            v = 255 if dt == np.uint8 else 65535 if dt == np.uint16 else 16777215
            return np.full(n, v, dtype=dt)
        return np.full(n, hi, dtype=dt)
    if vclass == "ramp":
        top = hi if hi is not None else (255 if dt == np.uint8 else 65535 if dt == np.uint16 else 1 << 20)
        if dt == np.uint8:
            top = min(top, 255)
        vals = (np.arange(n, dtype=np.int64) * 7 + 1 + seed) % (top + 1)
        return vals.astype(dt)
    if vclass == "frac":
        if nbits != 32 or dt.kind != "f":
            return None
        return (np.arange(n, dtype=np.float64) * 0.375 - 1.625).astype(dt)
    if vclass == "huge":
        if nbits != 32 or dt.kind != "f":
            return None
        return (np.float32(1e30) * (1 + np.arange(n, dtype=np.float32) / 8)).astype(dt) * np.where(np.arange(n) % 2, -1, 1).astype(dt)
    raise AssertionError(vclass)


def run_shard(shard: dict, ctx, res, only=None) -> None:
    wd = ctx.workdir("c04")
    k = shard["kind"]
    if k == "cwrite":
        _cwrite(wd, shard, ctx, res, only)
    elif k == "block":
        _block(wd, shard, ctx, res, only)
    else:
        _series(wd, shard, ctx, res, only)


def _cwrite(wd, shard, ctx, res, only):
    from sigpyproc.header import Header
    from sigpyproc.readers import FilReader

    nb = shard["nbits"]
    per = 8 // nb if nb < 8 else 1
    chans = [per, 3 * per] if nb < 8 else [1, 3]
    cases = []
    for dtype in DTYPES:
        for ns in range(1, shard["max_nsamps"] + 1):
            for C in chans:
                for vc in ("min", "max", "ramp", "frac", "huge"):
                    cases.append([dtype, ns, C, vc])
    if only is not None:
        cases = [] if only[0] in ("seq", "big") else [only]
    hdrs = {}
    for dtype, ns, C, vc in cases:
        vals = _values(nb, dtype, ns * C, vc, ctx.seed)
        if vals is None:
            continue
        res.evaluations += 1
        case = {"shard": shard, "inner": [dtype, ns, C, vc]}
        if C not in hdrs:
            hdrs[C] = _mk_header(wd, C, 8, dm=12.5)
        src = hdrs[C]
        out = str(wd / "out.fil")
        try:
            w = src.prep_outfile(out, nbits=nb)
        except Exception as e:  # noqa: BLE001
            res.violation({"site": "Header.prep_outfile", "symptom": f"raised {type(e).__name__}"}, case, repr(e))
            continue
        try:
            w.cwrite(vals)
        except Exception:  # noqa: BLE001 - a refusal is allowed by the statement
            w.close()
            res.outcome("cwrite/refused")
            res.nontrivial += 1
            continue
        w.close()
        natural = np.dtype(fx.NP_DTYPE[nb])
        if _verify_fil(out, vals.reshape(ns, C), nb, src, res, case, "FileWriter.cwrite", dm=12.5):
            res.outcome("cwrite/roundtrip")
            if np.dtype(dtype) != natural or nb < 8:
                res.nontrivial += 1
    # histories on ONE writer: every composition of ns samples into consecutive cwrite calls (growing, shrinking, single-sample chunks)
    natural = np.dtype(fx.NP_DTYPE[nb])
    nmax = shard["max_nsamps"] + 2
    seqs = [[dtype, list(comp), C] for dtype in dict.fromkeys([natural.name if nb >= 8 else "uint8", "float32"]) for C in chans
            for ns in range(2, nmax + 1) for comp in fx.compositions(ns, ns) if len(comp) >= 2]
    if only is not None:
        seqs = [only[1:]] if only[0] == "seq" else []
    for dtype, comp, C in seqs:
        ns = sum(comp)
        vals = _values(nb, dtype, ns * C, "ramp", ctx.seed)
        res.evaluations += 1
        case = {"shard": shard, "inner": ["seq", dtype, comp, C]}
        if C not in hdrs:
            hdrs[C] = _mk_header(wd, C, 8, dm=12.5)
        src = hdrs[C]
        out = str(wd / "outseq.fil")
        at = 0
        try:
            w = src.prep_outfile(out, nbits=nb)
            for part in comp:
                w.cwrite(vals[at * C : (at + part) * C])
                at += part
            w.close()
        except Exception as e:  # noqa: BLE001
            if at == 0:
                res.outcome("cwrite/refused")  # this (dtype, depth) is refused from the first call on: allowed
                continue
            res.violation({"site": "FileWriter.cwrite", "symptom": f"raised {type(e).__name__} after earlier writes of the same dtype succeeded"}, case, repr(e))
            continue
        if _verify_fil(out, vals.reshape(ns, C), nb, src, res, case, "FileWriter.cwrite (sequence of calls)", dm=12.5):
            res.outcome("cwrite/sequence_roundtrip")
            res.nontrivial += 1
    # scale lane: one write of more than 2**20 elements (not a multiple of 2**20) per in-memory dtype, alone and followed by a short second write
    C = chans[-1]
    ns_big = ((1 << 20) + 12347) // C + 1
    bigs = [[dtype, ns_big, tail] for dtype in DTYPES for tail in (0, 5)]
    if only is not None:
        bigs = [only[1:]] if only[0] == "big" else []
    for dtype, ns, tail in bigs:
        vals = _values(nb, dtype, (ns + tail) * C, "ramp", ctx.seed)
        if vals is None:
            continue
        res.evaluations += 1
        case = {"shard": shard, "inner": ["big", dtype, ns, tail]}
        if C not in hdrs:
            hdrs[C] = _mk_header(wd, C, 8, dm=12.5)
        src = hdrs[C]
        out = str(wd / "outbig.fil")
        done = 0
        try:
            w = src.prep_outfile(out, nbits=nb)
            w.cwrite(vals[: ns * C])
            done = 1
            if tail:
                w.cwrite(vals[ns * C :])
            w.close()
        except Exception as e:  # noqa: BLE001
            if not done:
                res.outcome("cwrite/refused")
                continue
            res.violation({"site": "FileWriter.cwrite", "symptom": f"raised {type(e).__name__} after earlier writes of the same dtype succeeded"}, case, repr(e))
            continue
        if _verify_fil(out, vals.reshape(ns + tail, C), nb, src, res, case, "FileWriter.cwrite (more than 2**20 elements)", dm=12.5):
            res.outcome("cwrite/large_roundtrip")
            res.nontrivial += 1
    res.sample({"path": "cwrite", "nbits": nb, "case": ["float32", 2, chans[0], "ramp"]}, cap=1)


def _verify_fil(out, X, nb, src, res, case, site, dm=0.0) -> bool:
    from sigpyproc.header import Header
    from sigpyproc.readers import FilReader

    ns, C = X.shape
    try:
        hdr = Header.from_sigproc(out)
    except Exception as e:  # noqa: BLE001
        res.violation({"site": site, "symptom": f"output header unreadable: {type(e).__name__}"}, case, repr(e))
        return False
    hl = hdr.stream_info.entries[0].hdrlen
    size = os.path.getsize(out)
    want_size = hl + ns * C * nb // 8
    if hdr.nbits != nb or hdr.nchans != C:
        res.violation({"site": site, "symptom": "header nbits/nchans differ from what was requested"}, case,
                      f"nbits={hdr.nbits} nchans={hdr.nchans}")
        return False
    if size != want_size:
        res.violation({"site": site, "symptom": "data section width differs from the declared depth", "nbits": nb}, case,
                      f"file has {size - hl} data bytes, header declares {nb}-bit x {C} chans x {ns} samples = {want_size - hl}")
        return False
    if hdr.nsamples != ns:
        res.violation({"site": site, "symptom": "inferred sample count differs from samples written"}, case, f"{hdr.nsamples} != {ns}")
        return False
    try:
        blk = FilReader(out).read_block(0, ns)
    except Exception as e:  # noqa: BLE001
        res.violation({"site": site, "symptom": f"read back raised {type(e).__name__}"}, case, repr(e))
        return False
    want = X.T.astype(np.float32)
    if blk.data.shape != want.shape or not np.array_equal(blk.data, want):
        res.violation({"site": site, "symptom": "values read back differ", "nbits": nb}, case,
                      f"wrote {X[:8].tolist()} read {np.asarray(blk.data).T[:8].tolist()} (first 8 of {ns} samples)")
        return False
    if hdr.tsamp != src.tsamp or hdr.tstart != src.tstart or hdr.dm != dm:
        res.violation({"site": site, "symptom": "timing metadata changed"}, case,
                      f"tsamp {hdr.tsamp} vs {src.tsamp}; tstart {hdr.tstart!r} vs {src.tstart!r}; dm {hdr.dm} vs {dm}")
        return False
    return True


def _block(wd, shard, ctx, res, only):
    from sigpyproc.block import FilterbankBlock

    cases = [[C, ns] for C in (1, 2, 5) for ns in range(1, shard["max_nsamps"] + 1)]
    if only is not None:
        cases = [only]
    for C, ns in cases:
        res.evaluations += 1
        case = {"shard": shard, "inner": [C, ns]}
        hdm = 35.5 if ns % 2 else 0.0  # the reference DM of the header the block came with must survive, like tsamp and tstart
        src = _mk_header(wd, C, 8, dm=hdm)
        data = (np.arange(C * ns, dtype=np.float32).reshape(C, ns) * 1.25 - 3.5)
        out = str(wd / "blk.fil")
        try:
            blk = FilterbankBlock(data, src.new_header({"nsamples": ns, "nbits": 32}))
            blk.to_file(out)
            del blk
        except Exception as e:  # noqa: BLE001
            res.violation({"site": "FilterbankBlock.to_file", "symptom": f"raised {type(e).__name__}"}, case, repr(e))
            continue
        if _verify_fil(out, data.T, 32, src, res, case, "FilterbankBlock.to_file", dm=hdm):
            res.outcome("block/roundtrip")
            res.nontrivial += 1


def _series_values(n: int, vc: str):
    if vc == "ramp":
        return (np.arange(n, dtype=np.float32) + 1) * np.float32(1.5) - 4
    if vc == "const":
        return np.full(n, np.float32(-7.25))
    if vc == "huge":
        return (np.float32(3e37) / (1 + np.arange(n, dtype=np.float32))) * np.where(np.arange(n) % 2, -1, 1).astype(np.float32)
    raise AssertionError(vc)


def _series(wd, shard, ctx, res, only):
    from sigpyproc.fourierseries import FourierSeries
    from sigpyproc.header import Header
    from sigpyproc.timeseries import TimeSeries

    cases = [[n, vc] for n in range(shard["lo"], shard["hi"] + 1) for vc in (("ramp",) if shard.get("big") else ("ramp", "const", "huge"))]
    if only is not None:
        cases = [only]
    metas = [(0.000256, 58123.456789012345, 56.78125), (64e-6, 60000.000000001, 0.0), (1e-3 / 3, 50000.999999999, 1234.56789012),
             (0.1, 58849.5, 0.001953125)]
    for n, vc in cases:
        # timing metadata cycle with the case so that several value patterns go through every format
        tsamp, tstart, dm = metas[(n + len(vc)) % len(metas)]
        case = {"shard": shard, "inner": [n, vc]}
        x = _series_values(n, vc)
        # the header of a series usually derives from its parent filterbank and still names that file's depth
        hdr = Header(filename=str(wd / "series.tim"), data_type="time series", nchans=1, foff=-0.5, fch1=1400.0, nbits=(32, 8, 16, 32, 2)[n % 5],
                     tsamp=tsamp, tstart=tstart, nsamples=n, dm=dm, source="J0000-0000")

        def meta_ok(h, site, exact: bool) -> bool:
            if exact:
                ok = h.tsamp == tsamp and h.tstart == tstart and h.dm == dm
            else:
                ok = abs(h.tsamp - tsamp) <= 1e-12 * tsamp and abs(h.tstart - tstart) <= 1e-10 and abs(h.dm - dm) <= 1e-12 * max(dm, 1e-30)
            if not ok:
                res.violation({"site": site, "symptom": "timing metadata changed"}, case,
                              f"tsamp {h.tsamp!r}/{tsamp!r} tstart {h.tstart!r}/{tstart!r} dm {h.dm!r}/{dm!r}")
            return ok

        # ---- .tim
        res.evaluations += 1
        try:
            ts = TimeSeries(x, hdr)
            f = ts.to_tim(str(wd / "a.tim"))
            size = os.path.getsize(f)
            back = TimeSeries.from_tim(f)
            hl = back.header.stream_info.entries[0].hdrlen
            if size != hl + 4 * n:
                res.violation({"site": "TimeSeries.to_tim", "symptom": "data section width differs from the declared depth"}, case,
                              f"{size - hl} data bytes for {n} float32 samples")
            elif back.data.shape != x.shape or back.data.tobytes() != x.tobytes() or back.header.nsamples != n:
                res.violation({"site": "TimeSeries.to_tim/from_tim", "symptom": "values read back differ"}, case,
                              f"wrote {x[:6].tolist()} (n={n}) read {back.data[:6].tolist()} (n={back.data.size})")
            elif meta_ok(back.header, "TimeSeries.to_tim/from_tim", True):
                res.outcome("tim/roundtrip")
                if n >= 2:
                    res.nontrivial += 1
        except Exception as e:  # noqa: BLE001
            res.violation({"site": "TimeSeries.to_tim/from_tim", "symptom": f"raised {type(e).__name__}"}, case, repr(e))
        # ---- .dat/.inf
        res.evaluations += 1
        try:
            f = ts.to_dat(str(wd / "b"))
            size = os.path.getsize(f)
            back = TimeSeries.from_dat(f)
            if back.data.size != n or size != 4 * n:
                res.violation({"site": "TimeSeries.to_dat/from_dat", "symptom": "sample count read back differs from samples written"}, case,
                              f"wrote {n} samples, .dat has {size} bytes, from_dat returns {back.data.size} samples")
            elif back.data.tobytes() != x.tobytes() or back.header.nsamples != n:
                res.violation({"site": "TimeSeries.to_dat/from_dat", "symptom": "values read back differ"}, case,
                              f"wrote {x[:6].tolist()} read {back.data[:6].tolist()}")
            elif meta_ok(back.header, "TimeSeries.to_dat/from_dat", False):
                res.outcome("dat/roundtrip")
                if n >= 2:
                    res.nontrivial += 1
        except Exception as e:  # noqa: BLE001
            res.violation({"site": "TimeSeries.to_dat/from_dat", "symptom": f"raised {type(e).__name__}"}, case, repr(e))
        # ---- spectra: n complex bins
        z = (x.astype(np.complex64) * np.complex64(1 + 0.5j))[::-1].copy()
        shdr = hdr.new_header({"nsamples": 2 * (n - 1) if n > 1 else 1, "data_type": "complex spectrum"})
        res.evaluations += 1
        try:
            fs = FourierSeries(z, shdr)
            f = fs.to_spec(str(wd / "c.spec"))
            size = os.path.getsize(f)
            back = FourierSeries.from_spec(f)
            hl = back.header.stream_info.entries[0].hdrlen
            if size != hl + 8 * n:
                res.violation({"site": "FourierSeries.to_spec", "symptom": "data section width differs from the declared depth"}, case,
                              f"{size - hl} data bytes for {n} complex64 bins")
            elif back.data.shape != z.shape or back.data.tobytes() != z.tobytes():
                res.violation({"site": "FourierSeries.to_spec/from_spec", "symptom": "values read back differ"}, case, "")
            elif meta_ok(back.header, "FourierSeries.to_spec/from_spec", True):
                res.outcome("spec/roundtrip")
                if n >= 2:
                    res.nontrivial += 1
        except Exception as e:  # noqa: BLE001
            res.violation({"site": "FourierSeries.to_spec/from_spec", "symptom": f"raised {type(e).__name__}"}, case, repr(e))
        res.evaluations += 1
        try:
            f = fs.to_fft(str(wd / "d"))
            size = os.path.getsize(f)
            back = FourierSeries.from_fft(f)
            if size != 8 * n or back.data.shape != z.shape or back.data.tobytes() != z.tobytes():
                res.violation({"site": "FourierSeries.to_fft/from_fft", "symptom": "values read back differ"}, case,
                              f".fft has {size} bytes for {n} bins; read {back.data.size} bins")
            elif meta_ok(back.header, "FourierSeries.to_fft/from_fft", False):
                res.outcome("fft/roundtrip")
                if n >= 2:
                    res.nontrivial += 1
        except Exception as e:  # noqa: BLE001
            res.violation({"site": "FourierSeries.to_fft/from_fft", "symptom": f"raised {type(e).__name__}"}, case, repr(e))
    res.sample({"path": "series", "case": [shard["lo"], "ramp"]}, cap=1)
