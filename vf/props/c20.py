"""C20 - a partially written output is always a valid prefix of the final file.

Engine D (crash-state enumeration): the write history of every streaming writer is captured
(in-process: every FileWriter.write/cwrite call with an on-disk snapshot through a separate
descriptor; thorough: the syscall history under strace), every crash point between two
consecutive writes is materialised and read back with the library's reader, and every
byte-length truncation of the final file at or after the header is opened and read.
"""
from __future__ import annotations

import gc
import os
import re
import subprocess
import sys
from pathlib import Path

import numpy as np

from vf.core import fixtures as fx

PROP = "C20"
LEVEL = "fault_enumeration"
RULE = (
    "for every writer in {extract_samps, extract_chans, extract_bands, apply_channel_mask, clean_rfi, invert_freq, downsample, subband, "
    "remove_zerodm, requantize, FilterbankBlock.to_file, TimeSeries.to_tim, FourierSeries.to_spec} x gulp in {1,2,3,N/2,N,10N} x depth {8,32,4}: the "
    "history of FileWriter.write/cwrite calls is recorded with an on-disk snapshot after each call (separate descriptor); every crash point "
    "(after each write) must satisfy I1 complete final header, I2 byte-prefix of the final file, extension of the previous state by exactly the bytes written and unchanged until the next write starts, I3 "
    "FilReader opens it and returns the first k samples; I4 the file is complete when the call returns (before any gc); plus every byte-length "
    "truncation of each final file from hdrlen upwards is opened and read; every history is also started from a non-initial state (the output names already exist and hold a longer stale product) and run on data whose last blocks are all zero; two writers produce a 24 MiB product in 24 blocks (sizes after every write, three crash states read back). thorough adds the syscall history (strace) replayed into a "
    "byte-array model: model == real file, no write below EOF, no truncate/rename. Non-trivial = crash states with 0 < k < n"
)
SCALE_LANE = '24 MiB products written in 24 blocks by 2 (thorough 5) writers: size after every write, state when each write starts, 3 crash states read back'
ASSUMPTIONS = [
    "fault model = process death between two writes (kernel buffers survive); power loss / fsync ordering is not in the property",
    "the state before the header write (empty file right after open) is not a state 'after a write' and is not judged",
    "a writer that delays whole blocks but stays prefix-consistent satisfies the statement (k is just smaller) and is not flagged",
]
REQUIRED_OUTCOMES = ["crash_state/ok", "crash_state/partial", "crash_state/over_existing_longer_file", "crash_state/all_zero_tail_blocks", "crash_state/big_product", "return_complete/ok", "truncation/ok", "truncation/mid_sample"]

WRITERS = ["extract_samps", "extract_chans", "extract_bands", "apply_channel_mask", "clean_rfi", "invert_freq", "downsample", "subband",
           "remove_zerodm", "requantize", "block.to_file", "ts.to_tim", "fs.to_spec"]
N, C = 12, 8


def bounds(tier: str) -> dict:
    return {"writers": WRITERS, "gulps": [1, 2, 3, N // 2, N, 10 * N] if tier == "quick" else "1..N+1, 10N", "depths": [8, 32, 4], "N": N, "C": C, "syscall_level": tier == "thorough"}


def shards(tier: str, seed: int) -> list:
    out = []
    gulps = [1, 2, 3, N // 2, N, 10 * N] if tier == "quick" else [*range(1, N + 2), 10 * N]
    for nbits in (8, 32, 4):
        for w in WRITERS:
            out.append({"kind": "calls", "writer": w, "nbits": nbits, "gulps": gulps})
    if tier == "thorough":
        for nbits in (8, 32):
            for w in WRITERS:
                out.append({"kind": "syscalls", "writer": w, "nbits": nbits})
    # scale lane: products of 24 MiB written in 24 blocks (anything decided by the size of the output - preallocation, a different write path - shows here)
    for w in (("extract_samps", "invert_freq") if tier == "quick" else ("extract_samps", "invert_freq", "apply_channel_mask", "requantize", "downsample")):
        out.append({"kind": "big", "writer": w, "nbits": 8})
    return out


# ------------------------------------------------------------------------------------------------


def _run_writer(fil, writer, g, wd, tag="o"):
    """Call one writer; returns list of output paths."""
    kw = {"gulp": g, "quiet": True, "description": "vf"}
    out = str(wd / f"{tag}.fil")
    base = str(wd / f"{tag}b")
    if writer == "extract_samps":
        return [fil.extract_samps(1, N - 2, outfile_name=out, **kw)]
    if writer == "extract_chans":
        return list(fil.extract_chans(np.array([0, 5]), outfile_base=base, **kw))
    if writer == "extract_bands":
        return list(fil.extract_bands(0, 8, 4, outfile_base=base, **kw))
    if writer == "apply_channel_mask":
        return [fil.apply_channel_mask(np.array([0, 1, 0, 0, 0, 0, 1, 0]), 0, outfile_name=out, **kw)]
    if writer == "clean_rfi":
        return [fil.clean_rfi(mask_value=0, outfile_name=out, **kw)[0]]
    if writer == "invert_freq":
        return [fil.invert_freq(outfile_name=out, **kw)]
    if writer == "downsample":
        return [fil.downsample(tfactor=2, ffactor=2, outfile_name=out, **kw)]
    if writer == "subband":
        return [fil.subband(1.0, 2, outfile_name=out, **kw)]
    if writer == "remove_zerodm":
        return [fil.remove_zerodm(outfile_name=out, **kw)]
    if writer == "requantize":
        return [fil.requantize(32 if fil.header.nbits != 32 else 8, outfile_name=out, **kw)]
    blk = fil.read_block(0, N)
    if writer == "block.to_file":
        return [blk.to_file(out)]
    ts = blk.get_tim()
    if writer == "ts.to_tim":
        return [ts.to_tim(out)]
    if writer == "fs.to_spec":
        return [ts.rfft().to_spec(out)]
    raise AssertionError(writer)


def _input(wd, nbits, seed, zero_tail=False):
    from sigpyproc.readers import FilReader

    if nbits == 4:
        X = (6 + fx.label_data(N, C, 8, seed + 3).astype(np.int64) % 4).astype(np.uint8)
    elif nbits == 8:
        X = (100 + fx.label_data(N, C, 8, seed + 3).astype(np.int64) % 41 - 20).astype(np.uint8)
    else:
        X = fx.label_data(N, C, 32, seed)
    if zero_tail:
        X = X.copy()
        X[N // 2 :] = 0  # the last blocks of the product are entirely zero (blanked data): they must still reach the file, in order
    paths = fx.make_fileset(wd, X, nbits, [N], fch1=1500.0, foff=-50.0, tsamp=1e-3, stem="in")
    return FilReader(paths)


def _decode(buf: bytes):
    fields, hl = fx.parse_header_bytes(buf)
    f = dict(fields)
    nb, nc = f["nbits"], f["nchans"]
    data = buf[hl:]
    k = (len(data) * 8) // (nb * nc)
    data = data[: k * nb * nc // 8]
    if nb < 8:
        arr = fx.ref_unpack(data, nb).astype(np.float64)
    else:
        arr = np.frombuffer(data, dtype=fx.NP_DTYPE[nb]).astype(np.float64)
    return hl, nb, nc, arr.reshape(k, nc)


class _Recorder:
    """Class-level wrappers around FileWriter that snapshot the output file after every call."""

    def __init__(self):
        from sigpyproc.io.fileio import FileWriter

        self.FW = FileWriter
        self.hist: dict[str, list] = {}
        self.pre: dict[str, list] = {}
        self.orig = {k: getattr(FileWriter, k) for k in ("__init__", "write", "cwrite", "close")}

    @staticmethod
    def snap(path):
        with open(path, "rb") as fp:
            return fp.read()

    def __enter__(self):
        rec = self

        def init(self_, file, *a, **k):
            rec.orig["__init__"](self_, file, *a, **k)
            rec.hist.setdefault(str(file), []).append(("open", 0, rec.snap(file)))

        def write(self_, bo):
            p = self_.files[0]
            rec.pre.setdefault(str(p), []).append(rec.snap(p))  # the state BETWEEN two writes: must still be the state the previous write left
            rec.orig["write"](self_, bo)
            rec.hist[str(p)].append(("write", len(bo), rec.snap(p)))

        def cwrite(self_, arr):
            p = self_.files[0]
            rec.pre.setdefault(str(p), []).append(rec.snap(p))
            rec.orig["cwrite"](self_, arr)
            rec.hist[str(p)].append(("cwrite", int(np.asarray(arr).size), rec.snap(p)))

        self.FW.__init__, self.FW.write, self.FW.cwrite = init, write, cwrite
        return self

    def __exit__(self, *exc):
        for k, v in self.orig.items():
            setattr(self.FW, k, v)


def _check_state(state: bytes, final: bytes, hl: int, Xfin, nb, nc, wd, res, case, site, what) -> bool:
    """I1-I3 on one surviving file."""
    from sigpyproc.readers import FilReader

    if len(state) < hl or state[:hl] != final[:hl]:
        res.violation({"site": site, "symptom": "surviving file does not begin with the complete final header", "at": what}, case,
                      f"{what}: {len(state)} bytes on disk, header is {hl} bytes")
        return False
    if state != final[: len(state)]:
        res.violation({"site": site, "symptom": "surviving file is not a byte-prefix of the final file", "at": what}, case,
                      f"{what}: first difference at byte {next(i for i in range(min(len(state), len(final))) if state[i] != final[i]) if len(state) <= len(final) else len(final)}")
        return False
    k = ((len(state) - hl) * 8) // (nb * nc)
    p = wd / "crash.fil"
    p.write_bytes(state)
    try:
        r = FilReader(str(p))
        if r.header.nsamples != k:
            res.violation({"site": site, "symptom": "reader infers a wrong sample count from the surviving file", "at": what}, case, f"{r.header.nsamples} vs {k}")
            return False
        if k:
            got = np.asarray(r.read_block(0, k).data, dtype=np.float64).T
            if got.shape != (k, nc) or not np.array_equal(got, Xfin[:k]):
                res.violation({"site": site, "symptom": "surviving file does not yield the first k samples of the full result", "at": what}, case, f"k={k}")
                return False
        r._file.close()
    except Exception as e:  # noqa: BLE001
        res.violation({"site": site, "symptom": f"library reader raised {type(e).__name__} on the surviving file", "at": what}, case, f"{what}: {e!r}")
        return False
    return True


def run_shard(shard: dict, ctx, res, only=None) -> None:
    import warnings

    warnings.filterwarnings("ignore")
    if shard["kind"] == "syscalls":
        return _syscalls(shard, ctx, res, only)
    if shard["kind"] == "big":
        return _big(shard, ctx, res, only)
    wd = ctx.workdir("c20")
    writer, nbits = shard["writer"], shard["nbits"]
    site = f"writer:{writer}"
    truncated_done = False
    gl = list(shard.get("gulps", (1, 2, 3, N // 2, N, 10 * N)))
    for g, stale, ztail in [(g, st, zt) for g in gl for st, zt in ((False, False), (True, False), (False, True))]:
        if only is not None and only not in (g, [g, stale], [g, stale, ztail]):
            continue
        case = {"shard": shard, "inner": [g, stale, ztail]}
        fil = _input(wd, nbits, ctx.seed, ztail)
        if stale:
            # non-initial state: the output names already exist and hold a longer, stale product (a previous run plus 4099 bytes)
            try:
                for p in _run_writer(fil, writer, gl[-1], wd):
                    size = os.path.getsize(p)
                    with open(p, "wb") as fp:
                        fp.write(b"\xa5" * (size + 4099))
            except Exception:  # noqa: BLE001, S112
                continue
            fil = _input(wd, nbits, ctx.seed, ztail)
        with _Recorder() as rec:
            try:
                outs = _run_writer(fil, writer, g, wd)
            except Exception as e:  # noqa: BLE001
                res.evaluations += 1
                res.violation({"site": site, "symptom": f"raised {type(e).__name__}"}, case, repr(e))
                continue
            at_return = {p: rec.snap(p) for p in outs}
        del fil
        gc.collect()
        finals = {p: _Recorder.snap(p) for p in outs}
        for p in outs:
            final = finals[p]
            res.evaluations += 1
            if at_return[p] != final:
                res.violation({"site": site, "symptom": "file on disk is not complete when the call returns"}, case,
                              f"{os.path.basename(p)}: {len(at_return[p])} bytes at return, {len(final)} after finalisation")
                continue
            res.outcome("return_complete/ok")
            try:
                hl, nb, nc, Xfin = _decode(final)
            except Exception as e:  # noqa: BLE001
                res.violation({"site": site, "symptom": "final file is malformed"}, case, repr(e))
                continue
            hist = rec.hist.get(str(p), [])
            writes = [h for h in hist if h[0] != "open"]
            if not writes or writes[0][0] != "write":
                res.violation({"site": site, "symptom": "no header write recorded before data"}, case, f"history {[h[:2] for h in hist]}")
                continue
            prev = b""
            ok = True
            pres = rec.pre.get(str(p), [])
            for j, (kind, n, snap) in enumerate(writes):
                res.evaluations += 1
                what = f"after call {j} ({kind} of {n})"
                if j >= 1 and j < len(pres) and pres[j] != prev:
                    res.violation({"site": site, "symptom": "file changed between two writes (outside FileWriter.write/cwrite)", "at": "between writes"}, case,
                                  f"before call {j}: {len(pres[j])} bytes on disk, the previous write left {len(prev)}")
                    ok = False
                    break
                if snap[: len(prev)] != prev or len(snap) < len(prev):
                    res.violation({"site": site, "symptom": "output is not append-only (earlier bytes changed or file shrank)", "at": "between writes"}, case, what)
                    ok = False
                    break
                grew = n if kind == "write" else n * nb // 8
                if len(snap) != len(prev) + grew:
                    res.violation({"site": site, "symptom": "file length is not the number of bytes written so far (stale or missing bytes)", "at": "between writes"}, case,
                                  f"{what}: {len(snap)} bytes on disk, {len(prev)} before + {grew} written")
                    ok = False
                    break
                if not _check_state(snap, final, hl, Xfin, nb, nc, wd, res, case, site, "between writes"):
                    ok = False
                    break
                prev = snap
                k = ((len(snap) - hl) * 8) // (nb * nc)
                res.outcome("crash_state/ok")
                if stale:
                    res.outcome("crash_state/over_existing_longer_file")
                if ztail:
                    res.outcome("crash_state/all_zero_tail_blocks")
                if 0 < k < Xfin.shape[0]:
                    res.outcome("crash_state/partial")
                    res.nontrivial += 1
            if not ok:
                continue
            if writes[-1][2] != final:
                res.violation({"site": site, "symptom": "bytes reached the file outside FileWriter.write/cwrite after the last recorded write"}, case, "")
                continue
            res.count("crash_states", len(writes))
            # every byte-length truncation of the final file (once per writer/depth/output: it does not depend on the gulp)
            if not truncated_done:
                for L in range(hl, len(final) + 1):
                    res.evaluations += 1
                    if not _check_state(final[:L], final, hl, Xfin, nb, nc, wd, res, case, site, "truncation"):
                        break
                    res.outcome("truncation/ok")
                    res.count("crash_states")
                    if ((L - hl) * 8) % (nb * nc):
                        res.outcome("truncation/mid_sample")
                        res.nontrivial += 1
        truncated_done = True
        for p in outs:
            try:
                os.unlink(p)
            except OSError:
                pass
    res.sample({"shard": shard, "inner": 2, "history_example": "open, write(header), cwrite(block 0), cwrite(block 1), ..."}, cap=1)


def _big(shard, ctx, res, only):
    """A 24 MiB product: sizes and prefixes after every write (read-back of every crash state would cost 24 x 24 MiB; the first, middle and last
    partial states are read back)."""
    from sigpyproc.readers import FilReader

    wd = ctx.workdir("c20b")
    NB, CB, g = 24576, 1024, 1024
    writer = shard["writer"]
    site = f"writer:{writer}"
    case = {"shard": shard, "inner": g}
    h = fx.label_data(NB, CB, 8, ctx.seed)
    paths = fx.make_fileset(wd, h, 8, [NB], fch1=1500.0, foff=-0.25, tsamp=1e-3, stem="bigin")
    fil = FilReader(paths)
    out = str(wd / "big.fil")
    kw = {"gulp": g, "quiet": True, "description": "vf", "outfile_name": out}
    res.evaluations += 1

    class _R(_Recorder):
        @staticmethod
        def snap(path):  # sizes and a short head/tail only: full snapshots of a 24 MiB file after each of 24 writes are not needed for I1/I2
            return os.path.getsize(path)

    with _R() as rec:
        try:
            if writer == "extract_samps":
                fil.extract_samps(1, NB - 2, **kw)
            elif writer == "invert_freq":
                fil.invert_freq(**kw)
            elif writer == "apply_channel_mask":
                fil.apply_channel_mask(np.arange(CB) % 7 == 0, 0, **kw)
            elif writer == "requantize":
                fil.requantize(32, **kw)
            else:
                fil.downsample(tfactor=2, ffactor=1, **kw)
        except Exception as e:  # noqa: BLE001
            res.violation({"site": site, "symptom": f"raised {type(e).__name__}", "big": True}, case, repr(e))
            return
        size_at_return = os.path.getsize(out)
    del fil
    gc.collect()
    final = open(out, "rb").read()
    if size_at_return != len(final):
        res.violation({"site": site, "symptom": "file on disk is not complete when the call returns", "big": True}, case, f"{size_at_return} bytes at return, {len(final)} after finalisation")
        return
    res.outcome("return_complete/ok")
    hl, nb, nc, Xfin = _decode(final)
    writes = [w for w in rec.hist.get(out, []) if w[0] != "open"]
    if len(writes) < 3 or writes[0][0] != "write":
        res.violation({"site": site, "symptom": "no header write recorded before data", "big": True}, case, f"{[w[:2] for w in writes[:3]]}")
        return
    prev = 0
    pres = rec.pre.get(out, [])
    for j, (kind, n, size) in enumerate(writes):
        res.evaluations += 1
        grew = n if kind == "write" else n * nb // 8
        if j >= 1 and j < len(pres) and pres[j] != prev:
            res.violation({"site": site, "symptom": "file changed between two writes (outside FileWriter.write/cwrite)", "at": "between writes", "big": True}, case,
                          f"before call {j}: {pres[j]} bytes on disk, the previous write left {prev}")
            return
        if size != prev + grew:
            res.violation({"site": site, "symptom": "file length is not the number of bytes written so far (stale or missing bytes)", "at": "between writes", "big": True}, case,
                          f"after call {j} ({kind} of {n}): {size} bytes on disk, {prev} before + {grew} written")
            return
        prev = size
        res.outcome("crash_state/ok")
        res.count("crash_states")
    if prev != len(final):
        res.violation({"site": site, "symptom": "bytes reached the file outside FileWriter.write/cwrite after the last recorded write", "big": True}, case, "")
        return
    # read back three crash states (I2/I3): after the first data block, in the middle, one block before the end
    sizes = [w[2] for w in writes]
    for j in (1, len(writes) // 2, len(writes) - 2):
        res.evaluations += 1
        if not _check_state(final[: sizes[j]], final, hl, Xfin, nb, nc, wd, res, case, site, "between writes"):
            return
        res.outcome("crash_state/partial")
        res.outcome("crash_state/big_product")
        res.nontrivial += 1
    os.unlink(out)


# ------------------------------------------------------------------------------------------------
# thorough: syscall-level history under strace

_CHILD = r"""
import sys, numpy as np
sys.path.insert(0, {repo!r}); sys.path.insert(0, {verif!r})
import warnings; warnings.filterwarnings("ignore")
from pathlib import Path
from vf.props import c20
from sigpyproc.readers import FilReader
wd = Path({wd!r})
fil = FilReader({inp!r})
print("VF-BEGIN", flush=True)
import os; os.write(2, b"")  # marker-free; strace sees only file syscalls we filter
outs = c20._run_writer(fil, {writer!r}, {g}, wd, tag="s")
print("VF-OUTS " + "|".join(outs), flush=True)
"""


def _syscalls(shard, ctx, res, only):
    wd = ctx.workdir("c20s")
    writer, nbits = shard["writer"], shard["nbits"]
    site = f"writer:{writer}"
    for g in (1, 3, 10 * N):
        if only is not None and only != g:
            continue
        case = {"shard": shard, "inner": g}
        res.evaluations += 1
        fil = _input(wd, nbits, ctx.seed)
        inp = [str(x) for x in fil._filenames]
        fil._file.close()
        log = wd / f"strace_{g}.log"
        code = _CHILD.format(repo=ctx.repo, verif=str(Path(__file__).resolve().parents[2]), wd=str(wd), inp=inp, writer=writer, g=g)
        env = dict(os.environ)
        cmd = ["strace", "-f", "-y", "-s", "1000000", "-o", str(log), "-e", "trace=openat,open,creat,dup,dup2,dup3,fcntl,write,writev,pwrite64,lseek,ftruncate,truncate,fallocate,rename,renameat,renameat2,unlink,unlinkat,close",
               sys.executable, "-c", code]
        p = subprocess.run(cmd, capture_output=True, text=True, env=env, timeout=600)
        m = re.search(r"VF-OUTS (.*)", p.stdout)
        if p.returncode != 0 or not m:
            res.violation({"site": site, "symptom": "writer failed under strace"}, case, (p.stderr or p.stdout)[-800:])
            continue
        outs = m.group(1).split("|")
        try:
            model, events, problems = _replay_strace(log.read_text(), set(outs))
        except Exception as e:  # noqa: BLE001
            res.notes.append(f"strace log could not be parsed for {writer}: {e!r}")
            res.caps.append("syscall history unparsed for some writers")
            continue
        for pth in outs:
            final = Path(pth).read_bytes()
            if bytes(model.get(pth, b"")) != final:
                res.violation({"site": "harness", "symptom": "syscall model does not reproduce the real file (non-write path to the file?)"}, case,
                              f"{os.path.basename(pth)}: model {len(model.get(pth, b''))} bytes, real {len(final)}")
                continue
            if problems.get(pth):
                res.violation({"site": site, "symptom": "non-append syscall on the output", "what": problems[pth][0][0]}, case, f"{problems[pth][:3]}")
                continue
            try:
                hl, nb, nc, Xfin = _decode(final)
            except Exception as e:  # noqa: BLE001
                res.violation({"site": site, "symptom": "final file is malformed"}, case, repr(e))
                continue
            ok = True
            seen_hdr = False
            for j, state in enumerate(events.get(pth, [])):
                res.evaluations += 1
                if not seen_hdr and len(state) < hl:
                    # header not yet complete: only allowed before/within the very first write
                    if j > 0:
                        res.violation({"site": site, "symptom": "header written in more than one syscall or after data"}, case, f"state {j}: {len(state)} bytes")
                        ok = False
                        break
                    continue
                seen_hdr = True
                if not _check_state(state, final, hl, Xfin, nb, nc, wd, res, case, site, "between write syscalls"):
                    ok = False
                    break
                res.outcome("crash_state/ok")
                res.count("crash_states")
                res.count("syscall_states")
            if ok:
                res.outcome("syscall_history/ok")
                res.nontrivial += 1


_FD = re.compile(r"^(\d+)\s+(\w+)\((.*)\)\s+=\s+(-?\d+)(?:<([^>]*)>)?")


def _replay_strace(text: str, outs: set[str]):
    """Replay write-type syscalls on the output paths into byte-array models.

    Returns (final model per path, list of states after every write per path, problems per path).
    """
    model: dict[str, bytearray] = {}
    states: dict[str, list[bytes]] = {}
    problems: dict[str, list] = {}
    # open file descriptions: key (pid-agnostic) fd -> [path, offset-box]; dup shares the box
    fds: dict[tuple[str, int], list] = {}

    def fdkey(pid, fd):
        return (pid, fd)

    for line in text.splitlines():
        m = re.match(r"^(\d+)\s+(\w+)\((.*)\)\s+=\s+(-?\d+)", line)
        if not m:
            continue
        pid, name, args, ret = m.group(1), m.group(2), m.group(3), int(m.group(4))
        if ret < 0:
            continue
        if name in ("openat", "open", "creat"):
            pm = re.search(r'"([^"]+)"', args)
            if not pm:
                continue
            path = pm.group(1)
            if path not in outs:
                continue
            if "O_TRUNC" in args or name == "creat" or path not in model:
                model[path] = bytearray()
                states.setdefault(path, [])
            box = [path, [len(model[path]) if "O_APPEND" in args else 0]]
            fds[fdkey(pid, ret)] = box
        elif name in ("dup", "dup2", "dup3", "fcntl"):
            fm = re.match(r"(\d+)", args)
            if not fm:
                continue
            if name == "fcntl" and "F_DUPFD" not in args:
                continue
            src = fdkey(pid, int(fm.group(1)))
            if src in fds:
                fds[fdkey(pid, ret)] = fds[src]
        elif name == "close":
            fm = re.match(r"(\d+)", args)
            if fm:
                fds.pop(fdkey(pid, int(fm.group(1))), None)
        elif name == "lseek":
            fm = re.match(r"(\d+)<[^>]*>,\s*(-?\d+),\s*(\w+)", args) or re.match(r"(\d+),\s*(-?\d+),\s*(\w+)", args)
            if fm and fdkey(pid, int(fm.group(1))) in fds:
                fds[fdkey(pid, int(fm.group(1)))][1][0] = ret
        elif name in ("write", "pwrite64"):
            fm = re.match(r"(\d+)", args)
            if not fm or fdkey(pid, int(fm.group(1))) not in fds:
                continue
            path, off = fds[fdkey(pid, int(fm.group(1)))]
            data = _strace_bytes(args)
            if data is None or len(data) != ret:
                raise ValueError(f"cannot recover written bytes: {line[:120]}")
            pos = off[0]
            if name == "pwrite64":
                pos = int(args.rsplit(",", 1)[1])
            if pos < len(model[path]):
                problems.setdefault(path, []).append(("write below EOF", pos, len(model[path])))
            if pos > len(model[path]):
                model[path].extend(b"\0" * (pos - len(model[path])))
            model[path][pos : pos + ret] = data
            if name == "write":
                off[0] = pos + ret
            states[path].append(bytes(model[path]))
        elif name in ("ftruncate", "truncate", "fallocate", "rename", "renameat", "renameat2", "unlink", "unlinkat"):
            for path in outs:
                if path in args:
                    problems.setdefault(path, []).append((name, args[:80], 0))
            fm = re.match(r"(\d+)", args)
            if name in ("ftruncate", "fallocate") and fm and fdkey(pid, int(fm.group(1))) in fds:
                path = fds[fdkey(pid, int(fm.group(1)))][0]
                problems.setdefault(path, []).append((name, args[:80], 0))
    return model, states, problems


def _strace_bytes(args: str):
    m = re.search(r'"((?:[^"\\]|\\.)*)"(\.\.\.)?', args)
    if not m or m.group(2):
        return None
    s = m.group(1)
    out = bytearray()
    i = 0
    while i < len(s):
        c = s[i]
        if c != "\\":
            out.append(ord(c))
            i += 1
            continue
        n = s[i + 1]
        if n == "x":
            out.append(int(s[i + 2 : i + 4], 16))
            i += 4
        elif n in "01234567":
            j = i + 1
            while j < len(s) and j < i + 4 and s[j] in "01234567":
                j += 1
            out.append(int(s[i + 1 : j], 8))
            i = j
        else:
            out.append({"n": 10, "t": 9, "r": 13, "v": 11, "f": 12, "\\": 92, '"': 34, "a": 7, "b": 8, "e": 27}.get(n, ord(n)))
            i += 2
    return bytes(out)


def finalize(total, ctx) -> dict:
    return {"crash_states": int(total.counters.get("crash_states", 0)), "syscall_states": int(total.counters.get("syscall_states", 0))}
