"""C15 - robust normalisation is finite, affine-equivariant and axis-consistent.

Engine A: 9 scale x (2 loc + norm) methods x axis x shapes x data classes x affine maps.
"""
from __future__ import annotations

import itertools

import numpy as np

PROP = "C15"
LEVEL = "exploration"
RULE = (
    "complete product: scale method in {std,iqr,mad,doublemad,diffcov,biweight,qn,sn,gapper,norm} x loc in {median,mean,norm} x axis in "
    "{None,0,1,-1} x shapes {(16,),(8,12),(9,8)} x data class {normal, ties, constant, outlier, constant-lane, majority-ties} x affine maps a in "
    "{-100,-3,-0.01,0.01,2,100}, b in {0,-7|a|,50|a|}: (i) per-axis estimate == the 1-D estimator applied lane by lane, result broadcasts "
    "against the input; (ii) scale(a x+b) == |a| scale(x), z(a x+b) == sign(a) z(x) on lanes with a safely non-zero scale; (iii) all z-scores "
    "finite. A long-lane lane repeats (i)-(iii) on shapes (4500,) and (3,4300) for every scale method (2 maps). Non-trivial = every case with axis handling (2-D) or a non-identity map"
)
SCALE_LANE = 'shapes (4500,) and (3, 4300) x every scale method x {normal, ties} x 2 affine maps'
ASSUMPTIONS = [
    "equivariance is asserted only on lanes whose scale estimate exceeds 1e-6 of the lane's spread (on a zero-scale lane the unit-scale fall-back makes it impossible by design); there only finiteness is required",
    "offsets are tied to |a| (b in {0,-7|a|,50|a|}) so that the float32 cast inside estimate_zscore is not the dominant error; tolerances 1e-9 (scale, float64) and 1e-4 (z-scores, float32)",
    "lane-by-lane agreement within 1e-12 relative (scale, float64) / 1e-6 (z-scores)",
]
REQUIRED_OUTCOMES = ["axis/ok", "equivariance/ok", "finite/ok", "finite/zero_scale_lane", "container/ok", "long_lane/ok", "axis/layout_ok"]

SCALES = ["std", "iqr", "mad", "doublemad", "diffcov", "biweight", "qn", "sn", "gapper"]
LOCS = ["median", "mean"]
SHAPES = [(16,), (8, 12), (9, 8)]
CLASSES = ["normal", "ties", "constant", "outlier", "const_lane", "majority_ties", "tiny_scale"]
AS = [-100.0, -3.0, -0.01, 0.01, 2.0, 100.0]
BS = [0.0, -7.0, 50.0]


def bounds(tier: str) -> dict:
    return {"scales": SCALES + ["norm"], "locs": LOCS + ["norm"], "axes": [None, 0, 1], "shapes": SHAPES, "classes": CLASSES, "a": AS, "b_over_abs_a": BS}


def shards(tier: str, seed: int) -> list:
    out = []
    for sm in SCALES + ["norm"]:
        for cls in CLASSES:
            for variant in ((0,) if tier == "quick" else (0, 1, 2, 3)):
                out.append({"scale": sm, "cls": cls, "variant": variant})
    out.append({"scale": "containers", "cls": "normal"})
    # scale lane: lanes of several thousand samples (estimators that switch algorithm, thin or tile above a size would show here)
    for sm in SCALES:
        for cls in ("normal", "ties"):
            out.append({"scale": sm, "cls": cls, "variant": 0, "shapes": [[4500], [3, 4300]], "long": True})
    return out


def _data(cls, shape, seed):
    rng = np.random.default_rng([seed, CLASSES.index(cls), *shape])
    if cls == "normal":
        x = rng.normal(3.0, 2.0, shape)
    elif cls == "ties":
        x = rng.choice([-1.0, 0.0, 2.0], size=shape, p=[0.3, 0.4, 0.3])
    elif cls == "constant":
        x = np.full(shape, 4.5)
    elif cls == "outlier":
        x = rng.normal(0.0, 1.0, shape)
        x.flat[3] = 1e4
        x.flat[x.size - 2] = -3e3
    elif cls == "tiny_scale":
        # legitimately small scale (1e-4 around 0.5): must NOT be treated as zero, also after scaling by 1e-2
        x = 0.5 + rng.normal(0.0, 1e-4, shape)
    elif cls == "majority_ties":
        # > 50% of every lane equals the lane median (zero MAD -> the mean-absolute-deviation fallback), lanes differ in spread
        x = rng.normal(0.0, 1.0, shape)
        if len(shape) == 2:
            x *= (1 + np.arange(shape[0]))[:, None] * (1 + 0.5 * np.arange(shape[1]))[None, :]
        x[rng.random(shape) < 0.62] = 5.0
        if len(shape) == 2:
            x[:, ::2] = 5.0
            x[::2, :] = 5.0 if shape[0] > 8 else x[::2, :]
            x[1::2, 1::2] = rng.normal(0.0, 1.0, x[1::2, 1::2].shape) * (1 + np.arange(x[1::2, 1::2].shape[0]))[:, None]
            x[1::2, 1::4] = 5.0
    else:
        x = rng.normal(1.0, 1.5, shape)
        if len(shape) == 2:
            x[1, :] = 7.0
            x[:, 2] = -2.0
        else:
            x[:] = rng.normal(1.0, 1.5, shape)
    return x


def _lanes(x, axis):
    """Yield (index tuple selecting the lane in the keepdims result, 1-D lane)."""
    if axis is None or x.ndim == 1:
        yield (Ellipsis,), x.ravel()
        return
    axis = axis % x.ndim
    other = 1 - axis
    for i in range(x.shape[other]):
        sl = [slice(None), slice(None)]
        sl[other] = i
        yield tuple(sl), x[tuple(sl)]


def run_shard(shard: dict, ctx, res, only=None) -> None:
    import warnings

    warnings.filterwarnings("ignore")
    from sigpyproc.core import stats

    if shard["scale"] == "containers":
        return _containers(shard, ctx, res, only)
    sm, cls = shard["scale"], shard["cls"]
    long = bool(shard.get("long"))
    for shape in [tuple(sh) for sh in shard.get("shapes", SHAPES)]:
        x = _data(cls, shape, ctx.seed + 1000 * int(shard.get("variant", 0)))
        x0 = x.copy()
        axes = [None, 0, 1, -1]
        if len(shape) == 1:
            axes = [None, 0, -1]
        if long:
            axes = [None] if len(shape) == 1 else [1]
        for axis in axes:
            for lm in (["median"] if long else LOCS + ["norm"]):
                if only is not None and [list(shape), axis, lm] != only[:3]:
                    continue
                base = {"shard": shard, "inner": [list(shape), axis, lm]}
                # ---------------- (i) axis consistency of the scale estimate and of the z-scores
                res.evaluations += 1
                try:
                    sc = None if sm == "norm" else np.asarray(stats.estimate_scale(x, sm, axis, keepdims=True), dtype=np.float64)
                    zr = stats.estimate_zscore(x, lm, sm, axis)
                    z = np.asarray(zr.data, dtype=np.float64)
                except Exception as e:  # noqa: BLE001
                    res.violation({"site": "stats.estimate_zscore", "symptom": f"raised {type(e).__name__}", "scale": sm, "axis": str(axis)}, base, repr(e))
                    continue
                ok = True
                if not np.array_equal(x, x0):
                    res.violation({"site": "stats.estimate_scale/estimate_zscore", "symptom": "the caller's array was modified", "scale": sm}, base, f"shape {shape} axis {axis}")
                    x = x0.copy()
                    continue
                if sc is not None and x.ndim == 2:
                    # the same logical array in another memory layout (Fortran order, as blocks read from file are) must give the same estimates
                    try:
                        scf = np.asarray(stats.estimate_scale(np.asfortranarray(x), sm, axis, keepdims=True), dtype=np.float64)
                        sct = np.asarray(stats.estimate_scale(x.T, sm, None if axis is None else (1 - (axis % 2)), keepdims=True), dtype=np.float64)
                    except Exception as e:  # noqa: BLE001
                        res.violation({"site": "stats.estimate_scale", "symptom": f"raised {type(e).__name__} on a non-contiguous array", "scale": sm}, base, repr(e))
                        continue
                    if not np.allclose(scf, sc, rtol=1e-12, atol=1e-300) or not np.allclose(np.sort(sct.ravel()), np.sort(sc.ravel()), rtol=1e-12, atol=1e-300) and axis is not None:
                        res.violation({"site": "stats.estimate_scale", "symptom": "estimate depends on the memory layout of the array", "scale": sm, "axis": str(axis)}, base,
                                      f"shape {shape} axis {axis}: C order {sc.ravel()[:3].tolist()} Fortran order {scf.ravel()[:3].tolist()}")
                        continue
                    res.outcome("axis/layout_ok")
                if z.shape != x.shape:
                    res.violation({"site": "stats.estimate_zscore", "symptom": "z-score shape differs from the input", "scale": sm}, base, f"{z.shape} vs {x.shape}")
                    continue
                if sc is not None:
                    try:
                        np.broadcast_to(sc, x.shape)
                    except ValueError:
                        res.violation({"site": "stats.estimate_scale", "symptom": "result does not broadcast against the input", "scale": sm, "axis": str(axis)}, base,
                                      f"scale shape {sc.shape} input {x.shape}")
                        continue
                    scb = np.broadcast_to(sc, x.shape)
                    for sel, lane in _lanes(x, axis):
                        s1 = np.asarray(stats.estimate_scale(lane, sm, None), dtype=np.float64)
                        got = scb[sel] if sel != (Ellipsis,) else scb.ravel()
                        want = np.broadcast_to(s1.reshape(-1) if s1.ndim else s1, got.shape) if s1.size in (1, got.size) else s1
                        if not np.allclose(got, want, rtol=1e-12, atol=1e-300):
                            res.violation({"site": "stats.estimate_scale", "symptom": "per-axis estimate differs from the 1-D estimator applied to the lane",
                                           "scale": sm, "axis": str(axis), "ndim": x.ndim}, base,
                                          f"shape {shape} axis {axis}: lane {sel}: got {np.asarray(got).ravel()[:4].tolist()} want {np.asarray(want).ravel()[:4].tolist()}")
                            ok = False
                            break
                if not ok:
                    continue
                for sel, lane in _lanes(x, axis):
                    z1 = np.asarray(stats.estimate_zscore(lane, lm, sm, 0).data, dtype=np.float64)
                    got = z[sel] if sel != (Ellipsis,) else z.ravel()
                    if not np.allclose(got, z1, rtol=1e-6, atol=1e-6):
                        res.violation({"site": "stats.estimate_zscore", "symptom": "per-axis z-scores differ from the lane-by-lane result", "scale": sm,
                                       "axis": str(axis), "ndim": x.ndim}, base, f"shape {shape} axis {axis} lane {sel}: {got[:4].tolist()} vs {z1[:4].tolist()}")
                        ok = False
                        break
                if not ok:
                    continue
                res.outcome("axis/ok")
                if long:
                    res.outcome("long_lane/ok")
                if x.ndim == 2:
                    res.nontrivial += 1
                # ---------------- (iii) finiteness
                res.evaluations += 1
                if not np.all(np.isfinite(z)):
                    res.violation({"site": "stats.estimate_zscore", "symptom": "non-finite z-score for finite data", "scale": sm, "class": cls}, base,
                                  f"shape {shape} axis {axis}: {int((~np.isfinite(z)).sum())} non-finite values")
                    continue
                res.outcome("finite/ok")
                # lanes with a safely non-zero scale
                if sc is None:
                    safe = np.ones(x.shape, dtype=bool)
                else:
                    spread = np.ptp(x, axis=axis, keepdims=True) if axis is not None or x.ndim == 1 else np.ptp(x)
                    spread = np.broadcast_to(np.asarray(spread, dtype=np.float64), x.shape)
                    safe = np.broadcast_to(sc, x.shape) > 1e-6 * np.maximum(spread, 1e-300)
                    safe = safe & (spread > 0)
                if not safe.all():
                    res.outcome("finite/zero_scale_lane")
                if not safe.any():
                    continue
                # ---------------- (ii) affine equivariance
                # the tiny-scale class probes the zero-scale guard; an offset of 50|a| on a spread of 1e-4|a| is beyond float32 resolution
                # (a precision question, not an equivariance one), so that class is only scaled
                for a, bk in ([(-3.0, 50.0), (2.0, -7.0)] if long else itertools.product(AS, BS if cls != "tiny_scale" else [0.0])):
                    if only is not None and len(only) > 3 and [a, bk] != only[3]:
                        continue
                    res.evaluations += 1
                    case = {"shard": shard, "inner": [list(shape), axis, lm, [a, bk]]}
                    b = bk * abs(a)
                    y = a * x + b
                    try:
                        sc2 = None if sm == "norm" else np.broadcast_to(np.asarray(stats.estimate_scale(y, sm, axis, keepdims=True), dtype=np.float64), x.shape)
                        z2 = np.asarray(stats.estimate_zscore(y, lm, sm, axis).data, dtype=np.float64)
                    except Exception as e:  # noqa: BLE001
                        res.violation({"site": "stats.estimate_zscore", "symptom": f"raised {type(e).__name__} on a*x+b", "scale": sm}, case, repr(e))
                        continue
                    if not np.all(np.isfinite(z2)):
                        res.violation({"site": "stats.estimate_zscore", "symptom": "non-finite z-score for finite data", "scale": sm, "class": cls}, case, f"a={a} b={b}")
                        continue
                    if sm == "norm" or lm == "norm":
                        # 'norm' is by definition not equivariant (fixed location 0 / scale 1): finiteness only
                        res.outcome("equivariance/na_norm")
                        continue
                    # float64 error model for the scale: cancellation in a*x+b costs eps64*|y|/(|a|*spread) relative to the spread,
                    # amplified by the estimator's conditioning (spread/scale)^2
                    sc_b = np.broadcast_to(sc, x.shape)
                    spread_b = np.broadcast_to(np.asarray(spread, dtype=np.float64), x.shape) if sc is not None else 1.0
                    rt = 1e-9 + 64 * float(np.finfo(np.float64).eps) * np.max(np.abs(y)) / (abs(a) * np.where(safe, spread_b, 1.0)) * (np.where(safe, spread_b, 1.0) / np.where(safe, sc_b, 1.0)) ** 2
                    s_ok = bool(np.all(np.abs(sc2 - abs(a) * sc_b)[safe] <= (rt * abs(a) * sc_b)[safe]))
                    if not s_ok:
                        k = int(np.argmax(np.abs(sc2 - abs(a) * np.broadcast_to(sc, x.shape)) * safe))
                        res.violation({"site": "stats.estimate_scale", "symptom": "scale(a*x+b) != |a|*scale(x)", "scale": sm, "negative_a": a < 0}, case,
                                      f"shape {shape} axis {axis} a={a} b={b}: element {k}: {sc2.ravel()[k]!r} vs {abs(a) * np.broadcast_to(sc, x.shape).ravel()[k]!r}")
                        continue
                    # float32 error model: estimate_zscore casts a*x+b to float32 first, a relative perturbation
                    # rel_in = eps32*|y|max/(|a|*spread) of the data in units of the lane spread. It moves the numerator
                    # by rel_in*spread and the scale estimate by up to rel_in*(spread/scale)^2 relatively (the worst
                    # conditioned estimator, diffcov, is a square root of a difference of products of differences).
                    scx = np.where(safe, np.broadcast_to(sc, x.shape), 1.0)
                    spr = np.where(safe, spread if sc is not None else 1.0, 1.0)
                    rel_in = float(np.finfo(np.float32).eps) * np.max(np.abs(y)) / (abs(a) * spr)
                    tol_el = 1e-4 * np.maximum(1.0, np.abs(z)) + 64 * rel_in * (spr / scx) + 64 * np.abs(z) * rel_in * (spr / scx) ** 2
                    zdev = float(np.max((np.abs(z2 - np.sign(a) * z) / tol_el)[safe]))
                    res.maximum("zscore_equivariance_dev_over_tol", zdev)
                    if not (zdev <= 1):
                        res.violation({"site": "stats.estimate_zscore", "symptom": "z(a*x+b) != sign(a)*z(x)", "scale": sm, "loc": lm, "negative_a": a < 0}, case,
                                      f"shape {shape} axis {axis} a={a} b={b}: max deviation / tolerance = {zdev:.3e}")
                        continue
                    res.outcome("equivariance/ok")
                    res.nontrivial += 1
    res.sample({"shard": shard, "inner": [[8, 12], 0, "median", [-3.0, 50.0]]}, cap=1)


def _containers(shard, ctx, res, only):
    from sigpyproc.block import FilterbankBlock
    from sigpyproc.core import stats
    from sigpyproc.header import Header
    from sigpyproc.timeseries import TimeSeries

    rng = np.random.default_rng([ctx.seed, 5])
    A = rng.normal(10, 3, (6, 16)).astype(np.float32)
    hdr = Header(filename="x.fil", data_type="filterbank", nchans=6, foff=-2.0, fch1=1400.0, nbits=32, tsamp=0.002, tstart=58000.0, nsamples=16)
    blk = FilterbankBlock(A, hdr)
    for lm in LOCS:
        for sm in ("std", "iqr", "mad"):
            for axis in (0, 1, None):
                if only is not None and ["block", lm, sm, axis] != only:
                    continue
                res.evaluations += 1
                case = {"shard": shard, "inner": ["block", lm, sm, axis]}
                try:
                    nb = blk.normalise(lm, sm, axis)
                    want = np.asarray(stats.estimate_zscore(A, lm, sm, axis).data)
                    lanes_ok = True
                    if axis is not None:
                        for sel, lane in _lanes(A.astype(np.float64), axis):
                            z1 = np.asarray(stats.estimate_zscore(lane.astype(np.float32), lm, sm, 0).data, dtype=np.float64)
                            if not np.allclose(np.asarray(nb.data, dtype=np.float64)[sel], z1, rtol=1e-5, atol=1e-5):
                                lanes_ok = False
                    if nb.data.shape != A.shape or not np.array_equal(nb.data, want) or not lanes_ok or not np.all(np.isfinite(nb.data)):
                        res.violation({"site": "FilterbankBlock.normalise", "symptom": "differs from lane-by-lane z-scores"}, case, f"axis={axis}")
                    else:
                        res.outcome("container/ok")
                        res.nontrivial += 1
                except Exception as e:  # noqa: BLE001
                    res.violation({"site": "FilterbankBlock.normalise", "symptom": f"raised {type(e).__name__}"}, case, repr(e))
    x = rng.normal(-4, 2, 40).astype(np.float32)
    th = Header(filename="x.tim", data_type="time series", nchans=1, foff=-2.0, fch1=1400.0, nbits=32, tsamp=0.002, tstart=58000.0, nsamples=40)
    ts = TimeSeries(x, th)
    for lm in LOCS:
        for sm in ("std", "iqr", "mad"):
            if only is not None and ["ts", lm, sm] != only:
                continue
            res.evaluations += 1
            case = {"shard": shard, "inner": ["ts", lm, sm]}
            try:
                n = ts.normalise(lm, sm)
                loc = np.mean(x.astype(np.float64)) if lm == "mean" else np.median(x.astype(np.float64))
                sc = float(stats.estimate_scale(x.astype(np.float64), sm, None))
                want = (x.astype(np.float64) - loc) / sc
                if n.data.shape != x.shape or not np.allclose(n.data, want, rtol=1e-4, atol=1e-4):
                    res.violation({"site": "TimeSeries.normalise", "symptom": "differs from (x-loc)/scale"}, case, "")
                else:
                    res.outcome("container/ok")
                    res.nontrivial += 1
            except Exception as e:  # noqa: BLE001
                res.violation({"site": "TimeSeries.normalise", "symptom": f"raised {type(e).__name__}"}, case, repr(e))
