"""C11 - folding puts every sample in exactly one bin fixed by the phase model.

Engine A on kernels.fold, Filterbank.fold and TimeSeries.fold: period x accel x (nbins, nints,
nbands) x DM x gulp on labelled files, against a float64 evaluation of the phase formula.
"""
from __future__ import annotations

import os

import numpy as np

from vf.core import fixtures as fx

PROP = "C11"
LEVEL = "exploration"
RULE = (
    "complete enumeration of period/tsamp in {8 (=nbins), 8.001, 7.3891, 23.7, 40.0625} x accel in {0,5,-5,3e6,-3e6} x every "
    "(nbins in {4,5,8}, nints in {1,2,3}, nbands in {1,2,3,4,C}) allowed by the library's >=10-samples-per-cell rule x DMs (zero, "
    "small, maxdelay ~ N/6, negative) x two bands (descending 6-channel, ascending 4-channel) x gulps {1,7,2maxdelay-1,2maxdelay,"
    "N/2,N,10N}; kernel counts and sums, Filterbank.fold and TimeSeries.fold cubes compared with the float64 reference; cubes of all "
    "gulps compared bit-for-bit; periodic pulse trains; a scale lane folds 2**21 samples (2**22 thorough) whose values name their model bin, through TimeSeries.fold and "
    "Filterbank.fold (gulps 16384 and 100003). Non-trivial = more than one block, or maxdelay>0, or nints*nbands>1"
)
SCALE_LANE = '2**21 (thorough 2**22) samples whose values name their model phase bin, through TimeSeries.fold (nbins 8 and 64) and Filterbank.fold (gulps 16384 and 100003), accel 0 and 5'
ASSUMPTIONS = [
    "the phase formula is the kernel's documented one, evaluated in float64 from float32-rounded tsamp, period, accel (what the kernel signature does)",
    "configurations where some sample's phase is within 1e-6 of a bin edge (unless accel = 0, period = 2**k tsamp and the float64 phase is provably exact: then the edge sample belongs to the upper bin), or where the reference leaves a cell empty (mean undefined), are skipped and counted",
    "whole-file folds only (the quantifier has no sub-ranges); negative delay tables are folded over the window where every channel is defined, time measured at the reference channel",
]
REQUIRED_OUTCOMES = ["kernel/ok", "filterbank/ok", "timeseries/ok", "gulp_identity/ok", "pulse_train/ok", "timeseries/long_ok", "filterbank/long_ok"]

CVAL = 299792458.0
N = 250  # not divisible by 3: sub-integration boundaries fall between samples
BANDS = [(1500.0, -60.0, 6), (1200.0, 40.0, 4)]
DMS = {0: [0.0, 2.0, 30.0, 120.0, -30.0], 1: [0.0, 50.0, -50.0]}
PERIODS = [8.0, 8.001, 7.3891, 23.7, 40.0625]
ACCELS = [0.0, 5.0, -5.0, 3e6, -3e6]
TSAMP = 1e-3


def bounds(tier: str) -> dict:
    return {"N": N, "bands": BANDS, "dms": DMS, "periods_in_samples": PERIODS, "accels": ACCELS if tier == "thorough" else ACCELS[:4],
            "nbins": [4, 5, 8], "nints": [1, 2, 3], "nbands": [1, 2, 3, 4, "C"]}


def shards(tier: str, seed: int) -> list:
    b = bounds(tier)
    out = []
    for bi in range(len(BANDS)):
        for dm in DMS[bi]:
            for P in PERIODS:
                out.append({"kind": "fil", "band": bi, "dm": dm, "P": P, "accels": b["accels"]})
    for P in PERIODS:
        out.append({"kind": "tim", "P": P, "accels": b["accels"]})
    out.append({"kind": "pulse"})
    # scale lane: millions of samples / accumulated phase bins (precision of the phase arithmetic, counters, block bookkeeping over many blocks)
    for P in ((7.3891, 23.7) if tier == "quick" else PERIODS):
        out.append({"kind": "long", "P": P, "n": 1 << 21 if tier == "quick" else 1 << 22})
    return out


def _phase_bins(tvals, tsamp, period, accel, total, nbins):
    ts32, p32, a32 = float(np.float32(tsamp)), float(np.float32(period)), float(np.float32(accel))
    tobs = total * ts32
    tj = tvals.astype(np.float64) * ts32
    phase = nbins * tj * (1 + a32 * (tj - tobs) / (2 * CVAL)) / p32 + 0.5
    near = np.abs(phase - np.round(phase)) < 1e-6
    if near.any() and a32 == 0.0:
        # a sample exactly ON a bin edge is not ambiguous when the arithmetic is exact: with a period commensurate with the sampling time
        # (period = 2**k * tsamp) every product and quotient of the formula is exactly representable, so any evaluation order gives the same
        # phase, and the documented rule int(phase + 0.5) puts the sample in the upper bin
        from fractions import Fraction

        fts, fp = Fraction(ts32), Fraction(p32)
        ratio = fp / fts
        if ratio.denominator == 1 and ratio.numerator & (ratio.numerator - 1) == 0:
            exact = all(Fraction(float(phase[j])) == Fraction(nbins) * int(tvals[j]) * fts / fp + Fraction(1, 2) for j in np.flatnonzero(near))
            if exact:
                near = np.zeros_like(near)
    return (np.abs(np.trunc(phase)).astype(np.int64)) % nbins, bool(near.any())


def _reference(X, d, tsamp, period, accel, nbins, nints, nbands):
    """Returns (sum cube, count cube) float64/int64 of shape (nints, nbands, nbins), or None if ambiguous."""
    n, C = X.shape
    t0 = max(0, -int(d.min()))
    t1 = n - max(0, int(d.max()))
    tvals = np.arange(t0, t1)
    bins, near = _phase_bins(tvals, tsamp, period, accel, n, nbins)
    if near:
        return None
    sub = np.floor(tvals / (n / nints)).astype(np.int64)
    band = np.floor(np.arange(C) / (C / nbands)).astype(np.int64)
    S = np.zeros((nints, nbands, nbins))
    K = np.zeros((nints, nbands, nbins), dtype=np.int64)
    for c in range(C):
        v = X[tvals + d[c], c].astype(np.float64)
        np.add.at(S, (sub, band[c], bins), v)
        np.add.at(K, (sub, band[c], bins), 1)
    return S, K


def _configs(C):
    for nbins in (4, 5, 8):
        for nints in (1, 2, 3):
            for nb in (1, 2, 3, 4, C):
                if nb > C or (nb == C and C in (1, 2, 3, 4)):
                    continue
                if (N * C) // (nb * nints * nbins) < 10:
                    continue
                yield nbins, nints, nb


def run_shard(shard: dict, ctx, res, only=None) -> None:
    wd = ctx.workdir("c11")
    if shard["kind"] == "fil":
        _fil(wd, shard, ctx, res, only)
    elif shard["kind"] == "tim":
        _tim(wd, shard, ctx, res, only)
    elif shard["kind"] == "long":
        _long(wd, shard, ctx, res, only)
    else:
        _pulse(wd, shard, ctx, res, only)


def _fil(wd, shard, ctx, res, only):
    from sigpyproc.core import kernels
    from sigpyproc.readers import FilReader

    fch1, foff, C = BANDS[shard["band"]]
    dm, P = shard["dm"], shard["P"]
    period = P * TSAMP
    X = fx.label_data(N, C, 32, ctx.seed)
    paths = fx.make_fileset(wd, X, 32, [N], fch1=fch1, foff=foff, tsamp=TSAMP)
    fil = FilReader(paths)
    fil.logger.disabled = True  # "folding interval is an integer multiple" warnings only
    d = np.atleast_1d(np.asarray(fil.header.get_dmdelays(dm))).astype(int)
    md = int(d.max()) - min(0, int(d.min()))
    neg = bool(d.min() < 0)
    gulps = sorted({1, 7, max(1, 2 * md - 1), max(1, 2 * md), N // 2, N, 10 * N})
    for accel in shard["accels"]:
        for nbins, nints, nb in _configs(C):
            if only is not None and [accel, nbins, nints, nb] != only[:4]:
                continue
            ref = _reference(X, d, TSAMP, period, accel, nbins, nints, nb)
            if ref is None:
                res.skip("phase_within_1e-6_of_bin_edge")
                continue
            S, K = ref
            base_case = {"shard": shard, "inner": [accel, nbins, nints, nb]}
            # ---- kernel on the whole array (non-negative delay tables only: the kernel indexes isamp + delay)
            if not neg:
                res.evaluations += 1
                # guard zones around the cube: an out-of-cube write lands there instead of corrupting the heap
                PAD = 4 * nbins * nints * nb + 64
                tot = nbins * nints * nb
                fold_big = np.zeros(tot + 2 * PAD, dtype=np.float32)
                cnt_big = np.zeros(tot + 2 * PAD, dtype=np.int32)
                fold_ar, cnt_ar = fold_big[PAD : PAD + tot], cnt_big[PAD : PAD + tot]
                kernel_ok = False
                try:
                    kernels.fold(X.ravel(), fold_ar, cnt_ar, d.astype(np.int32), int(d.max()), TSAMP, period, accel, N, N, C, nbins, nints, nb, 0)
                    kc = cnt_ar.reshape(nints, nb, nbins)
                    ks = fold_ar.reshape(nints, nb, nbins)
                    if cnt_big[:PAD].any() or cnt_big[PAD + tot :].any() or fold_big[:PAD].any() or fold_big[PAD + tot :].any():
                        res.violation({"site": "kernels.fold", "symptom": "samples written outside the cube"}, base_case,
                                      f"nchans={C} nbands={nb} nints={nints}: {int(cnt_big[:PAD].sum() + cnt_big[PAD + tot:].sum())} hits outside")
                    elif int(cnt_ar.sum()) != (N - int(d.max())) * C:
                        res.violation({"site": "kernels.fold", "symptom": "hit counts do not sum to the number of samples folded"}, base_case,
                                      f"sum={int(cnt_ar.sum())} expected {(N - int(d.max())) * C}")
                    elif not np.array_equal(kc, K):
                        res.violation({"site": "kernels.fold", "symptom": "hit counts differ from the phase model"}, base_case,
                                      f"dm={dm} P={P} accel={accel} got {kc[0, 0].tolist()} want {K[0, 0].tolist()}")
                    elif not np.array_equal(ks.astype(np.float64), S):
                        res.violation({"site": "kernels.fold", "symptom": "cell sums differ from the phase model"}, base_case, f"dm={dm} P={P}")
                    else:
                        kernel_ok = True
                        res.outcome("kernel/ok")
                        if md > 0 or nints * nb > 1:
                            res.nontrivial += 1
                except Exception as e:  # noqa: BLE001
                    res.violation({"site": "kernels.fold", "symptom": f"raised {type(e).__name__}"}, base_case, repr(e))
                if not kernel_ok:
                    continue  # do not drive the streaming fold through a kernel that already misplaces samples
            if (K == 0).any():
                res.skip("empty_cell_in_reference")
                continue
            want = (S / K).astype(np.float32)
            first = None
            for g in gulps:
                if only is not None and len(only) > 4 and only[4] != g:
                    continue
                res.evaluations += 1
                case = {"shard": shard, "inner": [accel, nbins, nints, nb, g]}
                try:
                    cube = fil.fold(period, dm, accel=accel, nbins=nbins, nints=nints, nbands=nb, gulp=g, quiet=True, description="vf")
                except Exception as e:  # noqa: BLE001
                    res.violation({"site": "Filterbank.fold", "symptom": f"raised {type(e).__name__}", "negative_delays": neg}, case, repr(e))
                    continue
                got = np.asarray(cube.data)
                if got.shape != want.shape:
                    res.violation({"site": "Filterbank.fold", "symptom": "wrong cube shape"}, case, f"{got.shape} vs {want.shape}")
                    continue
                dev = float(np.max(np.abs(got.astype(np.float64) - want) / np.maximum(np.abs(want), 1)))
                res.maximum("cube_rel_dev", dev if np.isfinite(dev) else 1e9)
                if not np.array_equal(got, want):
                    res.violation({"site": "Filterbank.fold", "symptom": "cube differs from the mean of the samples the phase model assigns", "negative_delays": neg},
                                  case, f"dm={dm} delays={d.tolist()} P={P} accel={accel} gulp={g}: got[0,0]={got[0, 0].tolist()} want[0,0]={want[0, 0].tolist()}")
                    continue
                if cube.dm != dm or abs(cube.period - period) > 0:
                    res.violation({"site": "Filterbank.fold", "symptom": "cube reports a different dm/period"}, case, f"{cube.dm} {cube.period}")
                    continue
                res.outcome("filterbank/ok")
                if g < N or md > 0 or nints * nb > 1:
                    res.nontrivial += 1
                if first is None:
                    first = got
                elif got.tobytes() != first.tobytes():
                    res.violation({"site": "Filterbank.fold", "symptom": "cube depends on the gulp"}, case, "")
                else:
                    res.outcome("gulp_identity/ok")
    # nbands larger than the channel count is clipped to nchans
    if only is None and shard["P"] == PERIODS[2]:
        res.evaluations += 1
        case = {"shard": shard, "inner": [0.0, 5, 2, C + 3]}
        ref = _reference(X, d, TSAMP, period, 0.0, 5, 2, C)
        try:
            cube = fil.fold(period, dm, accel=0.0, nbins=5, nints=2, nbands=C + 3, gulp=61, quiet=True, description="vf")
            if ref is not None and not (ref[1] == 0).any():
                want = (ref[0] / ref[1]).astype(np.float32)
                if cube.data.shape != want.shape or not np.array_equal(cube.data, want):
                    res.violation({"site": "Filterbank.fold", "symptom": "nbands > nchans is not folded as nbands = nchans"}, case, f"shape {cube.data.shape} vs {want.shape}")
                else:
                    res.outcome("filterbank/ok")
        except Exception as e:  # noqa: BLE001
            res.violation({"site": "Filterbank.fold", "symptom": f"raised {type(e).__name__} for nbands > nchans"}, case, repr(e))
    res.sample({"shard": {k: shard[k] for k in ("band", "dm", "P")}, "delays": d.tolist(), "inner": [0.0, 8, 2, 3, 7]}, cap=1)


def _tim(wd, shard, ctx, res, only):
    from sigpyproc.header import Header
    from sigpyproc.timeseries import TimeSeries

    P = shard["P"]
    period = P * TSAMP
    n = 400
    x = (np.arange(n, dtype=np.float32) * 3 + 1)
    hdr = Header(filename="t.tim", data_type="time series", nchans=1, foff=-1.0, fch1=1400.0, nbits=32, tsamp=TSAMP, tstart=58000.0, nsamples=n, dm=12.0)
    ts = TimeSeries(x, hdr)
    for accel in shard["accels"]:
        for nbins in (4, 5, 8, 10):
            for nints in (1, 2, 3, 4):
                if only is not None and [accel, nbins, nints] != only:
                    continue
                if n // (nbins * nints) < 10:
                    continue
                tv = np.arange(n)
                bins, near = _phase_bins(tv, TSAMP, period, accel, n, nbins)
                if near:
                    res.skip("phase_within_1e-6_of_bin_edge")
                    continue
                sub = np.floor(tv / (n / nints)).astype(np.int64)
                S = np.zeros((nints, 1, nbins))
                K = np.zeros((nints, 1, nbins), dtype=np.int64)
                np.add.at(S, (sub, 0, bins), x.astype(np.float64))
                np.add.at(K, (sub, 0, bins), 1)
                if (K == 0).any():
                    res.skip("empty_cell_in_reference")
                    continue
                res.evaluations += 1
                case = {"shard": shard, "inner": [accel, nbins, nints]}
                try:
                    cube = ts.fold(period, accel=accel, nbins=nbins, nints=nints)
                except Exception as e:  # noqa: BLE001
                    res.violation({"site": "TimeSeries.fold", "symptom": f"raised {type(e).__name__}"}, case, repr(e))
                    continue
                want = (S / K).astype(np.float32)
                if cube.data.shape != want.shape or not np.array_equal(cube.data, want):
                    res.violation({"site": "TimeSeries.fold", "symptom": "cube differs from the mean of the samples the phase model assigns"}, case,
                                  f"P={P} accel={accel}: got {np.asarray(cube.data)[0, 0].tolist()} want {want[0, 0].tolist()}")
                    continue
                res.outcome("timeseries/ok")
                res.nontrivial += 1


def _long(wd, shard, ctx, res, only):
    """Every sample carries the number of the phase bin the model assigns it (+1): a correct cube holds exactly b+1 in every cell of bin b.
    Samples within 1e-6 of a bin edge (a few per million) carry the mean of their two candidate bins and cannot move a cell mean by more than
    their share; the tolerance is 1e-3, a misplaced fraction of 0.1 % of a cell."""
    from sigpyproc.header import Header
    from sigpyproc.readers import FilReader
    from sigpyproc.timeseries import TimeSeries

    P, n = shard["P"], shard["n"]
    period = P * TSAMP
    for accel in (0.0, 5.0):
        for nbins, nints in ((8, 4), (64, 1)):
            if only is not None and [accel, nbins, nints] != only:
                continue
            case = {"shard": shard, "inner": [accel, nbins, nints]}
            tv = np.arange(n)
            ts32, p32, a32 = float(np.float32(TSAMP)), float(np.float32(period)), float(np.float32(accel))
            tj = tv.astype(np.float64) * ts32
            phase = nbins * tj * (1 + a32 * (tj - n * ts32) / (2 * CVAL)) / p32 + 0.5
            bins = np.trunc(phase).astype(np.int64) % nbins
            x = (bins + 1).astype(np.float32)
            near = np.abs(phase - np.round(phase)) < 1e-6
            x[near] = ((bins[near] + 1) + ((bins[near] - 1) % nbins + 1)) / 2.0
            res.count("long_near_edge_samples", int(near.sum()))
            want = np.broadcast_to((np.arange(nbins) + 1.0)[None, None, :], (nints, 1, nbins))
            # cells the model leaves empty (a period commensurate with the sampling time populates only some bins) have no defined mean
            sub = np.floor(tv / (n / nints)).astype(np.int64)
            cnt = np.bincount(sub * nbins + bins, minlength=nints * nbins).reshape(nints, 1, nbins)
            filled = cnt > 0
            if float(np.max(cnt * want)) >= 2.0**24:
                # the cube accumulates in float32: a cell sum of 2**24 or more is no longer exact (outside the quantifier's exact-sum regime)
                res.skip("cell_sum_not_exact_in_float32")
                continue
            # TimeSeries.fold
            res.evaluations += 1
            hdr = Header(filename="t.tim", data_type="time series", nchans=1, foff=-1.0, fch1=1400.0, nbits=32, tsamp=TSAMP, tstart=58000.0, nsamples=n, dm=0.0)
            try:
                cube = np.asarray(TimeSeries(x, hdr).fold(period, accel=accel, nbins=nbins, nints=nints).data, dtype=np.float64)
                if cube.shape != want.shape or not np.all(np.abs(cube - want)[filled] <= 1e-3):
                    k = np.unravel_index(int(np.argmax(np.where(filled, np.abs(cube - want), 0))), want.shape) if cube.shape == want.shape else None
                    res.violation({"site": "TimeSeries.fold", "symptom": "cube differs from the mean of the samples the phase model assigns", "long": True}, case,
                                  f"n={n} P={P} accel={accel} nbins={nbins}: cell {k}: got {cube[k] if k else cube.shape} want {want[k] if k else want.shape}")
                else:
                    res.outcome("timeseries/long_ok")
                    res.nontrivial += 1
            except Exception as e:  # noqa: BLE001
                res.violation({"site": "TimeSeries.fold", "symptom": f"raised {type(e).__name__}", "long": True}, case, repr(e))
            # Filterbank.fold over many blocks (2 channels, DM 0, default and small gulps)
            if nbins != 8:
                continue
            X2 = np.stack([x, x], axis=1)
            paths = fx.make_fileset(wd, X2, 32, [n], fch1=1500.0, foff=-60.0, tsamp=TSAMP, stem=f"L{P}_{accel}_")
            fil = FilReader(paths)
            fil.logger.disabled = True
            for g in (16384, 100003):
                res.evaluations += 1
                try:
                    cube = np.asarray(fil.fold(period, 0.0, accel=accel, nbins=nbins, nints=nints, nbands=2, gulp=g, quiet=True, description="vf").data, dtype=np.float64)
                    want2 = np.broadcast_to((np.arange(nbins) + 1.0)[None, None, :], (nints, 2, nbins))
                    if cube.shape != want2.shape or not np.all(np.abs(cube - want2)[np.broadcast_to(filled, want2.shape)] <= 1e-3):
                        res.violation({"site": "Filterbank.fold", "symptom": "cube differs from the mean of the samples the phase model assigns", "long": True}, {**case, "inner": [accel, nbins, nints]},
                                      f"n={n} P={P} accel={accel} gulp={g}: max deviation {float(np.nanmax(np.abs(cube - want2))) if cube.shape == want2.shape else cube.shape}")
                    else:
                        res.outcome("filterbank/long_ok")
                        res.nontrivial += 1
                except Exception as e:  # noqa: BLE001
                    res.violation({"site": "Filterbank.fold", "symptom": f"raised {type(e).__name__}", "long": True}, case, repr(e))
            for pth in paths:
                try:
                    os.unlink(pth)
                except OSError:
                    pass


def _pulse(wd, shard, ctx, res, only):
    from sigpyproc.readers import FilReader

    C = 4
    for Pint in (8, 10, 16):
        for nints in (1, 2, 4):
            for dm in (0.0, 30.0):
                if only is not None and [Pint, nints, dm] != only:
                    continue
                res.evaluations += 1
                case = {"shard": shard, "inner": [Pint, nints, dm]}
                n = 320
                Xp = np.zeros((n, C), dtype=np.float32)
                paths0 = fx.make_fileset(wd, Xp, 32, [n], fch1=1500.0, foff=-60.0, tsamp=TSAMP, stem="z")
                d = np.atleast_1d(np.asarray(FilReader(paths0).header.get_dmdelays(dm))).astype(int)
                for c in range(C):
                    idx = np.arange(3, n - int(d.max()), Pint) + d[c]
                    Xp[idx, c] = 1.0
                paths = fx.make_fileset(wd, Xp, 32, [n], fch1=1500.0, foff=-60.0, tsamp=TSAMP, stem="p")
                fil = FilReader(paths)
                fil.logger.disabled = True
                try:
                    cube = fil.fold(Pint * TSAMP, dm, nbins=Pint, nints=nints, nbands=2, gulp=50, quiet=True, description="vf")
                except Exception as e:  # noqa: BLE001
                    res.violation({"site": "Filterbank.fold", "symptom": f"raised {type(e).__name__}"}, case, repr(e))
                    continue
                data = np.asarray(cube.data)
                occ = (data > 0)
                per_sub = occ.any(axis=1)  # (nints, nbins)
                if not np.all(per_sub.sum(axis=1) == 1) or len({int(np.argmax(r)) for r in per_sub}) != 1:
                    res.violation({"site": "Filterbank.fold", "symptom": "periodic pulse train does not occupy a single phase bin in every sub-integration"}, case,
                                  f"P={Pint} samples nints={nints} dm={dm}: occupied bins per subint {[np.flatnonzero(r).tolist() for r in per_sub]}")
                    continue
                res.outcome("pulse_train/ok")
                res.nontrivial += 1
