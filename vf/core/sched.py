"""Engine C: model-level exploration of numba prange kernels.

The model is the kernel's own Python definition (``kernel.py_func``), re-instantiated from its
source with

* the ``prange`` loop split into prelude / ``body(i)`` / postlude (AST transform), the body being a
  nested function so that names assigned inside it are private to an iteration, as in numba;
* ``np`` replaced by a shim whose allocators return recording proxies, and all array arguments
  wrapped in recording proxies.

Three uses of the same transformed function:

1. access tracing: per-iteration read/write sets of every shared location (independence analysis),
2. execution of the iterations in any given order (permutation check),
3. execution of the iterations on virtual threads under a controlled scheduler with a scheduling
   point before every access to a shared array that is written inside the loop, explored
   exhaustively up to a preemption bound (CHESS-style).
"""
from __future__ import annotations

import ast
import inspect
import itertools
import textwrap
import threading
from dataclasses import dataclass, field

import numpy as np

# --------------------------------------------------------------------------------------------
# recording proxies


class Tracer:
    """Receives every access to a proxied array."""

    def __init__(self):
        self.iteration = None  # current prange iteration (None = sequential part)
        self.reads: dict = {}  # iteration -> set(loc)
        self.writes: dict = {}
        self.hot: set | None = None  # array names that are scheduling points (None = no scheduling)
        self.sched = None
        self.nalloc = 0
        self.enabled = True

    def access(self, kind: str, name: str, loc) -> None:
        if not self.enabled:
            return
        if self.sched is not None and self.hot is not None and name in self.hot and self.sched.in_parallel:
            self.sched.point((kind, name, loc))
        it = self.sched.current_iteration() if (self.sched is not None and self.sched.in_parallel) else self.iteration
        d = self.reads if kind == "r" else self.writes
        d.setdefault(it, set()).add((name, loc))


class Proxy:
    """A recording view on a base array. ``_idx`` holds the base flat index of every element."""

    def __init__(self, arr: np.ndarray, name: str, tracer: Tracer, idx: np.ndarray | None = None):
        self._a = arr
        self._name = name
        self._t = tracer
        self._idx = np.arange(arr.size).reshape(arr.shape) if idx is None else idx

    # array-ish attributes -----------------------------------------------------------------
    @property
    def shape(self):
        return self._a.shape

    @property
    def size(self):
        return self._a.size

    @property
    def dtype(self):
        return self._a.dtype

    @property
    def ndim(self):
        return self._a.ndim

    def __len__(self):
        return len(self._a)

    # element / slice access ---------------------------------------------------------------
    def __getitem__(self, key):
        if self._a.dtype.names and isinstance(key, (int, np.integer)):
            return RecordProxy(self, int(key))
        sub = self._a[key]
        if isinstance(sub, np.ndarray) and sub.ndim > 0:
            return Proxy(sub, self._name, self._t, self._idx[key])
        self._t.access("r", self._name, int(self._idx[key]))
        return self._a[key]

    def __setitem__(self, key, value):
        sub_idx = self._idx[key]
        if isinstance(value, Proxy):
            for loc in np.asarray(value._idx).ravel():
                self._t.access("r", value._name, int(loc))
            value = value._a
        if isinstance(sub_idx, np.ndarray) and sub_idx.ndim > 0:
            for loc in sub_idx.ravel():
                self._t.access("w", self._name, int(loc))
        else:
            self._t.access("w", self._name, int(sub_idx))
        self._a[key] = value

    def read_all(self):
        for loc in np.asarray(self._idx).ravel():
            self._t.access("r", self._name, int(loc))
        return self._a

    def __iter__(self):
        for i in range(len(self)):
            yield self[i]


class RecordProxy:
    def __init__(self, parent: Proxy, i: int):
        self._p, self._i = parent, i

    def __getitem__(self, fld):
        self._p._t.access("r", self._p._name, (self._i, fld))
        return self._p._a[self._i][fld]

    def __setitem__(self, fld, value):
        self._p._t.access("w", self._p._name, (self._i, fld))
        self._p._a[self._i][fld] = value


class NpShim:
    """numpy with recording allocators and reductions."""

    def __init__(self, tracer: Tracer):
        self._t = tracer

    def __getattr__(self, name):
        return getattr(np, name)

    def _alloc(self, arr):
        self._t.nalloc += 1
        return Proxy(arr, f"alloc{self._t.nalloc}", self._t)

    def empty(self, shape, dtype=float):
        return self._alloc(np.zeros(shape, dtype=dtype))

    def zeros(self, shape, dtype=float):
        return self._alloc(np.zeros(shape, dtype=dtype))

    def empty_like(self, a, dtype=None):
        return self._alloc(np.zeros(a.shape, dtype=dtype or a.dtype))

    zeros_like = empty_like

    def sum(self, a, *args, **kw):
        if isinstance(a, Proxy):
            return np.sum(a.read_all(), *args, **kw)
        return np.sum(a, *args, **kw)


# --------------------------------------------------------------------------------------------
# AST split of the prange loop


class SplitError(Exception):
    pass


class _ContinueToReturn(ast.NodeTransformer):
    def visit_For(self, node):
        return node  # do not descend into nested loops

    visit_While = visit_For

    def visit_Continue(self, node):
        return ast.copy_location(ast.Return(value=None), node)


def _assigned_names(nodes) -> set[str]:
    out = set()
    for n in nodes:
        for sub in ast.walk(n):
            if isinstance(sub, ast.Name) and isinstance(sub.ctx, ast.Store):
                out.add(sub.id)
    return out


def find_parallel_kernels(source: str) -> dict[str, dict]:
    """Names of numba functions compiled with parallel=True whose definition contains a prange loop."""
    tree = ast.parse(source)
    defs = {n.name: n for n in tree.body if isinstance(n, ast.FunctionDef)}

    def has_prange(fd):
        return any(isinstance(s, ast.For) and isinstance(s.iter, ast.Call) and getattr(s.iter.func, "id", None) == "prange" for s in ast.walk(fd))

    def is_parallel(call) -> bool:
        return any(k.arg == "parallel" and isinstance(k.value, ast.Constant) and k.value.value is True for k in getattr(call, "keywords", []))

    out = {}
    for name, fd in defs.items():
        for dec in fd.decorator_list:
            if isinstance(dec, ast.Call) and getattr(dec.func, "id", None) in ("njit", "jit") and is_parallel(dec) and has_prange(fd):
                out[name] = {"pyfunc_of": name}
    for n in tree.body:
        if isinstance(n, ast.Assign) and isinstance(n.value, ast.Call) and getattr(n.value.func, "id", None) in ("njit", "jit") and is_parallel(n.value):
            a0 = n.value.args[0] if n.value.args else None
            if isinstance(a0, ast.Attribute) and a0.attr == "py_func" and isinstance(a0.value, ast.Name) and a0.value.id in defs and has_prange(defs[a0.value.id]):
                for t in n.targets:
                    if isinstance(t, ast.Name):
                        out[t.id] = {"pyfunc_of": a0.value.id}
    return out


@dataclass
class SplitKernel:
    name: str
    func: object  # transformed function
    tracer: Tracer
    runner: "Runner"
    carried: set[str] = field(default_factory=set)


class Runner:
    """What ``__vf_parallel(body, *prange_args)`` does; replaced per use."""

    def __init__(self, tracer: Tracer):
        self.tracer = tracer
        self.order = None  # explicit iteration order (permutation) or None
        self.sched = None  # Scheduler for virtual threads
        self.last_iterations: list[int] = []

    def __call__(self, body, *rargs):
        its = list(range(*[int(a) for a in rargs]))
        self.last_iterations = its
        if self.sched is not None:
            self.sched.run_parallel(body, its)
            return
        order = its if self.order is None else [its[k] for k in self.order(len(its))]
        for i in order:
            self.tracer.iteration = i
            body(i)
        self.tracer.iteration = None


def _is_prange_for(s) -> bool:
    return isinstance(s, ast.For) and isinstance(s.iter, ast.Call) and getattr(s.iter.func, "id", None) == "prange"


def split_kernel(pyfunc, name: str | None = None) -> SplitKernel:
    """Re-instantiate ``pyfunc`` with every prange loop (at function level or inside if/else/with/try blocks, not inside
    other loops) replaced by ``def __vf_body_k(i): <body>; __vf_parallel(__vf_body_k, *prange_args)``."""
    src = textwrap.dedent(inspect.getsource(pyfunc))
    tree = ast.parse(src)
    fdef = next(n for n in tree.body if isinstance(n, ast.FunctionDef))
    fdef.decorator_list = []
    fdef.returns = None
    for a in [*fdef.args.args, *fdef.args.kwonlyargs, *fdef.args.posonlyargs]:
        a.annotation = None
    argnames = {a.arg for a in fdef.args.args}
    loops: list = []

    def rewrite(stmts: list) -> list:
        out = []
        for st in stmts:
            if _is_prange_for(st):
                if not isinstance(st.target, ast.Name) or st.orelse:
                    raise SplitError("unsupported prange loop form")
                k = len(loops)
                loops.append(st)
                body_stmts = [_ContinueToReturn().visit(b) for b in st.body]
                if any(_is_prange_for(x) for b in st.body for x in ast.walk(b)):
                    raise SplitError("nested prange loops")
                body_def = ast.FunctionDef(
                    name=f"__vf_body_{k}",
                    args=ast.arguments(posonlyargs=[], args=[ast.arg(arg=st.target.id)], kwonlyargs=[], kw_defaults=[], defaults=[]),
                    body=body_stmts or [ast.Pass()],
                    decorator_list=[],
                    type_params=[],
                )
                call = ast.Expr(ast.Call(func=ast.Name(id="__vf_parallel", ctx=ast.Load()),
                                         args=[ast.Name(id=f"__vf_body_{k}", ctx=ast.Load()), *st.iter.args], keywords=[]))
                out += [body_def, call]
            elif isinstance(st, ast.If):
                st.body = rewrite(st.body)
                st.orelse = rewrite(st.orelse)
                out.append(st)
            elif isinstance(st, (ast.With, ast.Try)):
                st.body = rewrite(st.body)
                out.append(st)
            else:
                if isinstance(st, (ast.For, ast.While)) and any(_is_prange_for(x) for x in ast.walk(st)):
                    raise SplitError("prange loop inside another loop")
                out.append(st)
        return out

    fdef.body = rewrite(fdef.body)
    if not loops:
        raise SplitError(f"{pyfunc.__name__}: no prange loop found")
    # names (re)assigned inside a loop body that are also assigned outside it (or are arguments): carried scalars / reductions
    body_names = {k: _assigned_names(lp.body) - {lp.target.id} for k, lp in enumerate(loops)}
    carried: set[str] = set()

    # statements that contain a body definition (if-blocks): count only names assigned outside the body functions
    def outside_names(stmts):
        names = set()
        for st in stmts:
            if isinstance(st, ast.FunctionDef) and st.name.startswith("__vf_body_"):
                continue
            if isinstance(st, ast.If):
                names |= outside_names(st.body) | outside_names(st.orelse)
                names |= _assigned_names([st.test]) if hasattr(st, "test") else set()
            elif isinstance(st, (ast.With, ast.Try)):
                names |= outside_names(st.body)
            else:
                names |= _assigned_names([st])
        return names

    out_names = outside_names(fdef.body) | argnames
    for k in body_names:
        carried |= body_names[k] & out_names
    fdef.name = "__vf_kernel"
    mod = ast.Module(body=[fdef], type_ignores=[])
    ast.fix_missing_locations(mod)
    tracer = Tracer()
    runner = Runner(tracer)
    g = dict(pyfunc.__globals__)
    g["np"] = NpShim(tracer)
    g["__vf_parallel"] = runner
    code = compile(mod, f"<vf split of {pyfunc.__name__}>", "exec")
    exec(code, g)  # noqa: S102
    return SplitKernel(name or pyfunc.__name__, g["__vf_kernel"], tracer, runner, carried)


def wrap_args(sk: SplitKernel, args: list, names: list[str]):
    out = []
    for a, n in zip(args, names):
        out.append(Proxy(a, n, sk.tracer) if isinstance(a, np.ndarray) else a)
    return out


# --------------------------------------------------------------------------------------------
# independence analysis


def conflicts(tracer: Tracer) -> list[tuple]:
    """All (kind, location, iteration_a, iteration_b) with a write in one iteration and any access in another."""
    writers: dict = {}
    readers: dict = {}
    for it, locs in tracer.writes.items():
        if it is None:
            continue
        for loc in locs:
            writers.setdefault(loc, set()).add(it)
    for it, locs in tracer.reads.items():
        if it is None:
            continue
        for loc in locs:
            readers.setdefault(loc, set()).add(it)
    out = []
    for loc, ws in writers.items():
        if len(ws) > 1:
            a, b = sorted(ws, key=str)[:2]
            out.append(("write-write", loc, a, b))
            continue
        w = next(iter(ws))
        others = readers.get(loc, set()) - {w}
        if others:
            out.append(("write-read", loc, w, sorted(others, key=str)[0]))
    return out


def written_arrays(tracer: Tracer) -> set[str]:
    return {loc[0] for it, locs in tracer.writes.items() if it is not None for loc in locs}


# --------------------------------------------------------------------------------------------
# scheduler / explorer


class Scheduler:
    """Runs the loop iterations on virtual threads, one at a time, following a list of choices."""

    def __init__(self, assignment: list[list[int]], prefix: list[int]):
        self.assignment = assignment
        self.prefix = list(prefix)
        self.in_parallel = False
        self.points: list[dict] = []  # one per scheduling decision
        self.choices: list[int] = []
        self._cur = None
        self._iter_of: dict[int, int | None] = {}
        self.error = None
        self.diverged = False

    def current_iteration(self):
        return self._iter_of.get(self._cur)

    def point(self, what):
        # called by a virtual thread before a hot access: hand the baton back and wait
        t = self._cur
        self._back.release()
        self._go[t].acquire()

    def run_parallel(self, body, its):
        nthreads = len(self.assignment)
        self._go = [threading.Semaphore(0) for _ in range(nthreads)]
        self._back = threading.Semaphore(0)
        finished = [False] * nthreads
        threads = []

        def worker(t):
            self._go[t].acquire()
            try:
                for k in self.assignment[t]:
                    self._iter_of[t] = its[k]
                    body(its[k])
            except BaseException as e:  # noqa: BLE001
                self.error = e
            finally:
                finished[t] = True
                self._back.release()

        for t in range(nthreads):
            th = threading.Thread(target=worker, args=(t,), daemon=True)
            th.start()
            threads.append(th)
        self.in_parallel = True
        current = None
        while not all(finished):
            enabled = [t for t in range(nthreads) if not finished[t]]
            still = current is not None and current in enabled
            canon = ([current] if still else []) + [t for t in enabled if t != current or not still]
            k = len(self.choices)
            if k < len(self.prefix):
                c = self.prefix[k]
                if c >= len(canon):
                    self.diverged = True
                    c = 0
            else:
                c = 0
            self.points.append({"enabled": len(canon), "still": still})
            self.choices.append(c)
            current = canon[c]
            self._cur = current
            self._go[current].release()
            self._back.acquire()
        self.in_parallel = False
        self._cur = None
        for th in threads:
            th.join()
        if self.error is not None:
            raise self.error


@dataclass
class ExploreResult:
    schedules: int = 0
    outcomes: dict = field(default_factory=dict)  # result bytes -> example choices
    max_points: int = 0
    bound: int = 0
    capped: bool = False
    diverged: int = 0


def explore(run_once, assignment: list[list[int]], bound: int, cap: int = 200000) -> ExploreResult:
    """run_once(scheduler) -> result bytes. Enumerates all schedules with <= bound preemptions."""
    res = ExploreResult(bound=bound)
    stack = [[]]
    while stack:
        prefix = stack.pop()
        s = Scheduler(assignment, prefix)
        out = run_once(s)
        res.schedules += 1
        if s.diverged:
            res.diverged += 1
        res.outcomes.setdefault(out, list(s.choices))
        res.max_points = max(res.max_points, len(s.points))
        if res.schedules >= cap:
            res.capped = True
            break
        pre = 0
        # preemptions already spent along this execution
        costs = []
        for i, (p, c) in enumerate(zip(s.points, s.choices)):
            costs.append(pre)
            if p["still"] and c != 0:
                pre += 1
        for i in range(len(prefix), len(s.points)):
            p = s.points[i]
            for alt in range(1, p["enabled"]):
                cost = costs[i] + (1 if p["still"] else 0)
                if cost > bound:
                    continue
                stack.append(s.choices[:i] + [alt])
    return res


def all_orders(n: int, limit: int = 5):
    if n <= limit:
        yield from itertools.permutations(range(n))
    else:
        yield tuple(range(n))
        yield tuple(reversed(range(n)))
        yield tuple(list(range(1, n, 2)) + list(range(0, n, 2)))
