"""Independent builders for SIGPROC inputs (no sigpyproc code is used here).

* header encoder from our own copy of the SIGPROC key table,
* reference bit packing/unpacking with Python-integer semantics,
* labelled data (unique provenance labels where the depth allows it),
* multi-file sets with consecutive start epochs.
"""
from __future__ import annotations

import struct
from pathlib import Path

import numpy as np

# Our own copy of the SIGPROC key table (name -> struct format or "str").
KEY_TYPES: dict[str, str] = {
    "signed": "b",
    "telescope_id": "I",
    "ibeam": "I",
    "nbeams": "I",
    "refdm": "d",
    "nifs": "I",
    "nchans": "I",
    "foff": "d",
    "fch1": "d",
    "nbits": "I",
    "tsamp": "d",
    "tstart": "d",
    "src_dej": "d",
    "src_raj": "d",
    "za_start": "d",
    "az_start": "d",
    "source_name": "str",
    "rawdatafile": "str",
    "data_type": "I",
    "machine_id": "I",
    "barycentric": "I",
    "pulsarcentric": "I",
}

DEFAULT_ORDER = {1: "little", 2: "big", 4: "big"}
NP_DTYPE = {1: "<u1", 2: "<u1", 4: "<u1", 8: "<u1", 16: "<u2", 32: "<f4"}


def enc_str(s: str) -> bytes:
    b = s.encode()
    return struct.pack("<I", len(b)) + b


def enc_key(key: str, value) -> bytes:
    t = KEY_TYPES[key]
    if t == "str":
        return enc_str(key) + enc_str(value)
    return enc_str(key) + struct.pack("<" + t, value)


def encode_header(fields: list[tuple[str, object]]) -> bytes:
    out = enc_str("HEADER_START")
    for k, v in fields:
        out += enc_key(k, v)
    out += enc_str("HEADER_END")
    return out


def std_fields(
    nchans: int,
    nbits: int,
    *,
    fch1: float = 1500.0,
    foff: float = -4.0,
    tsamp: float = 1e-3,
    tstart: float = 58000.0,
    data_type: int = 1,
    extra: list[tuple[str, object]] | None = None,
) -> list[tuple[str, object]]:
    f: list[tuple[str, object]] = [
        ("telescope_id", 4),
        ("machine_id", 10),
        ("data_type", data_type),
        ("source_name", "J0000-0000"),
        ("src_raj", 123456.7),
        ("src_dej", -123456.7),
        ("fch1", float(fch1)),
        ("foff", float(foff)),
        ("nchans", int(nchans)),
        ("nbits", int(nbits)),
        ("tstart", float(tstart)),
        ("tsamp", float(tsamp)),
        ("nifs", 1),
    ]
    if extra:
        f += extra
    return f


# ---------------------------------------------------------------------------------------
# reference bit packing (Python integers)


def ref_unpack(raw: bytes | np.ndarray, nbits: int, order: str | None = None) -> np.ndarray:
    order = order or DEFAULT_ORDER[nbits]
    per = 8 // nbits
    mask = (1 << nbits) - 1
    raw = bytes(bytearray(np.asarray(raw, dtype=np.uint8).tobytes())) if not isinstance(raw, bytes | bytearray) else bytes(raw)
    if len(raw) > 4096:
        return _vec_unpack(raw, nbits, order)
    out = np.empty(len(raw) * per, dtype=np.uint8)
    k = 0
    for b in raw:
        for j in range(per):
            shift = nbits * j if order[0] == "l" else nbits * (per - 1 - j)
            out[k] = (b >> shift) & mask
            k += 1
    return out


_VEC_OK: set = set()


def _vec_unpack(raw: bytes, nbits: int, order: str) -> np.ndarray:
    """Vectorised unpack for long inputs (scale lanes); proven equal to the definition above on all 256 byte values before first use."""
    per = 8 // nbits
    mask = (1 << nbits) - 1

    def go(a: np.ndarray) -> np.ndarray:
        out = np.empty((a.size, per), dtype=np.uint8)
        for j in range(per):
            shift = nbits * j if order[0] == "l" else nbits * (per - 1 - j)
            out[:, j] = (a >> shift) & mask
        return out.reshape(-1)

    if (nbits, order[0]) not in _VEC_OK:
        probe = bytes(range(256))
        assert np.array_equal(go(np.frombuffer(probe, dtype=np.uint8)), ref_unpack(probe, nbits, order)), "vectorised reference != definition"
        _VEC_OK.add((nbits, order[0]))
    return go(np.frombuffer(raw, dtype=np.uint8))


def ref_pack(vals: np.ndarray, nbits: int, order: str | None = None) -> bytes:
    order = order or DEFAULT_ORDER[nbits]
    per = 8 // nbits
    vals = [int(v) for v in np.asarray(vals).ravel()]
    assert len(vals) % per == 0
    out = bytearray(len(vals) // per)
    for i in range(len(out)):
        b = 0
        for j in range(per):
            shift = nbits * j if order[0] == "l" else nbits * (per - 1 - j)
            b |= (vals[i * per + j] & ((1 << nbits) - 1)) << shift
        out[i] = b
    return bytes(out)


def fast_ref_pack(vals: np.ndarray, nbits: int, order: str | None = None) -> bytes:
    """Vectorised equivalent of ref_pack (checked against it in C03)."""
    order = order or DEFAULT_ORDER[nbits]
    per = 8 // nbits
    v = np.asarray(vals, dtype=np.uint16).reshape(-1, per) & ((1 << nbits) - 1)
    if order[0] == "l":
        shifts = nbits * np.arange(per)
    else:
        shifts = nbits * (per - 1 - np.arange(per))
    return (v << shifts).sum(axis=1).astype(np.uint8).tobytes()


def to_raw(X: np.ndarray, nbits: int) -> bytes:
    """Data section bytes for samples X[nsamps, nchans] (time-major, channel fastest)."""
    flat = np.asarray(X).reshape(-1)
    if nbits in (1, 2, 4):
        return fast_ref_pack(flat.astype(np.uint8), nbits)
    return flat.astype(NP_DTYPE[nbits]).tobytes()


# ---------------------------------------------------------------------------------------
# labelled data


def _hash01(seed: int, n: int) -> np.ndarray:
    # splitmix64-like integer hash -> uint64 array; deterministic, no global RNG
    x = (np.arange(n, dtype=np.uint64) + np.uint64(seed * 0x9E3779B97F4A7C15 % (1 << 64))) * np.uint64(0xBF58476D1CE4E5B9)
    x ^= x >> np.uint64(31)
    x *= np.uint64(0x94D049BB133111EB)
    x ^= x >> np.uint64(29)
    return x


def label_data(nsamps: int, nchans: int, nbits: int, seed: int = 0) -> np.ndarray:
    """X[nsamps, nchans] in the value range of the depth.

    32-bit: unique labels t*nchans+c+1 (float32 exact). 16-bit: the same (unique < 65536).
    8-bit: unique while nsamps*nchans < 256, otherwise hashed. sub-byte: hashed values.
    """
    n = nsamps * nchans
    if nbits == 32:
        return (np.arange(n, dtype=np.float32) + 1).reshape(nsamps, nchans)
    if nbits == 16:
        return ((np.arange(n, dtype=np.uint32) + 1) % 65536).astype(np.uint16).reshape(nsamps, nchans)
    if nbits == 8 and n < 255:
        return (np.arange(n, dtype=np.uint16) + 1).astype(np.uint8).reshape(nsamps, nchans)
    with np.errstate(over="ignore"):
        h = _hash01(seed + 1, n)
    return (h % np.uint64(1 << nbits)).astype(np.uint8).reshape(nsamps, nchans)


# ---------------------------------------------------------------------------------------
# files


def write_fil(
    path: str | Path,
    X: np.ndarray,
    nbits: int,
    **hdr,
) -> int:
    """Write one SIGPROC file; returns header length."""
    nsamps, nchans = X.shape if X.ndim == 2 else (0, hdr.pop("nchans"))
    fields = hdr.pop("fields", None)
    if fields is None:
        fields = std_fields(nchans, nbits, **hdr)
    head = encode_header(fields)
    with open(path, "wb") as fp:
        fp.write(head)
        if X.size:
            fp.write(to_raw(X, nbits))
    return len(head)


def make_fileset(
    directory: str | Path,
    X: np.ndarray,
    nbits: int,
    lengths: list[int],
    *,
    tsamp: float = 1e-3,
    tstart: float = 58000.0,
    stem: str = "f",
    **hdr,
) -> list[str]:
    """Split X over len(lengths) files with consecutive start epochs."""
    assert sum(lengths) == X.shape[0]
    paths = []
    pos = 0
    for i, ln in enumerate(lengths):
        p = Path(directory) / f"{stem}{i}.fil"
        sub = X[pos : pos + ln]
        if ln == 0:
            sub = np.zeros((0, X.shape[1]), dtype=X.dtype)
        # every member file gets a header of a different length (rawdatafile is not compared between files):
        # an offset computed with another file's header length then lands on the wrong byte
        extra = [*(hdr.get("extra") or []), ("rawdatafile", "raw" + "x" * (3 * i))]
        hdr_i = {k: v for k, v in hdr.items() if k != "extra"}
        fields = std_fields(X.shape[1], nbits, tsamp=tsamp, tstart=tstart + pos * tsamp / 86400.0, extra=extra, **hdr_i)
        head = encode_header(fields)
        with open(p, "wb") as fp:
            fp.write(head)
            if ln:
                fp.write(to_raw(sub, nbits))
        paths.append(str(p))
        pos += ln
    return paths


def compositions(n: int, maxparts: int, *, allow_zero: bool = False):
    """All ways of writing n as an ordered sum of 1..maxparts parts (parts >= 1, or >= 0)."""
    lo = 0 if allow_zero else 1

    def rec(rem: int, parts: int):
        if parts == 1:
            if rem >= lo:
                yield (rem,)
            return
        for first in range(lo, rem - (parts - 1) * lo + 1):
            for rest in rec(rem - first, parts - 1):
                yield (first, *rest)

    for k in range(1, maxparts + 1):
        yield from rec(n, k)


def min_nchans(nbits: int) -> list[int]:
    """Two byte-aligned channel counts per depth."""
    return {1: [8, 16], 2: [4, 8], 4: [2, 6], 8: [1, 3], 16: [1, 3], 32: [1, 3]}[nbits]


def parse_header_bytes(buf: bytes) -> tuple[list[tuple[str, object]], int]:
    """Independent SIGPROC header parser: returns ([(key, value)...], header length)."""

    def rs(pos: int) -> tuple[str, int]:
        (n,) = struct.unpack_from("<I", buf, pos)
        return buf[pos + 4 : pos + 4 + n].decode(), pos + 4 + n

    key, pos = rs(0)
    assert key == "HEADER_START", key
    fields: list[tuple[str, object]] = []
    while True:
        key, pos = rs(pos)
        if key == "HEADER_END":
            return fields, pos
        t = KEY_TYPES[key]
        if t == "str":
            v, pos = rs(pos)
        else:
            (v,) = struct.unpack_from("<" + t, buf, pos)
            pos += struct.calcsize("<" + t)
        fields.append((key, v))
