"""Process environment for the checks: repo on sys.path, per-tree numba cache, scratch dirs.

Imported (and `prepare()` called) before anything imports sigpyproc/numba.
"""
from __future__ import annotations

import atexit
import hashlib
import os
import shutil
import sys
import tempfile
from pathlib import Path

VERIF_DIR = Path(__file__).resolve().parents[2]
WORK_DIR = VERIF_DIR / ".work"


def repo_dir() -> Path:
    return Path(os.environ.get("VERIF_REPO", "/repo")).resolve()


def tree_hash(repo: Path | None = None) -> str:
    repo = repo or repo_dir()
    h = hashlib.sha256()
    for p in sorted((repo / "sigpyproc").rglob("*.py")):
        h.update(p.relative_to(repo).as_posix().encode())
        h.update(b"\0")
        h.update(p.read_bytes())
        h.update(b"\0")
    return h.hexdigest()[:20]


def prepare(num_threads: int | None = 1) -> str:
    """Set up sys.path / environment. Must run before numba is imported."""
    repo = repo_dir()
    if not (repo / "sigpyproc" / "__init__.py").exists():
        print(f"HARNESS-ERROR: no sigpyproc package under {repo}", flush=True)
        sys.exit(2)
    th = os.environ.get("VF_TREE_HASH") or tree_hash(repo)
    os.environ["VF_TREE_HASH"] = th
    cache_root = WORK_DIR / "numba"
    cache = cache_root / th
    cache.mkdir(parents=True, exist_ok=True)
    os.environ["NUMBA_CACHE_DIR"] = str(cache)
    if num_threads is not None:
        os.environ["NUMBA_NUM_THREADS"] = str(num_threads)
        os.environ["OMP_NUM_THREADS"] = str(num_threads)
    else:
        os.environ.pop("NUMBA_NUM_THREADS", None)
        os.environ.pop("OMP_NUM_THREADS", None)
    os.environ.setdefault("MPLBACKEND", "Agg")
    os.environ["PYTHONDONTWRITEBYTECODE"] = "1"
    sys.dont_write_bytecode = True
    # repo first, then /verif
    for p in (str(VERIF_DIR), str(repo)):
        if p in sys.path:
            sys.path.remove(p)
    sys.path.insert(0, str(VERIF_DIR))
    sys.path.insert(0, str(repo))
    pp = [str(repo), str(VERIF_DIR)]
    os.environ["PYTHONPATH"] = os.pathsep.join(pp)
    return th


def prune_caches(keep: int = 4) -> None:
    cache_root = WORK_DIR / "numba"
    if not cache_root.exists():
        return
    dirs = sorted(
        (d for d in cache_root.iterdir() if d.is_dir()),
        key=lambda d: d.stat().st_mtime,
        reverse=True,
    )
    cur = os.environ.get("VF_TREE_HASH")
    for d in dirs[keep:]:
        if d.name != cur:
            shutil.rmtree(d, ignore_errors=True)


_SCRATCH: Path | None = None


def scratch_root() -> Path:
    """A per-run scratch directory (tmpfs if possible), removed at exit of the main process."""
    global _SCRATCH
    if _SCRATCH is not None:
        return _SCRATCH
    env = os.environ.get("VF_SCRATCH")
    if env:
        _SCRATCH = Path(env)
        _SCRATCH.mkdir(parents=True, exist_ok=True)
        return _SCRATCH
    base = "/dev/shm" if os.access("/dev/shm", os.W_OK) else tempfile.gettempdir()
    _SCRATCH = Path(tempfile.mkdtemp(prefix="vf-", dir=base))
    os.environ["VF_SCRATCH"] = str(_SCRATCH)
    owner = os.getpid()

    def _cleanup() -> None:
        if os.getpid() == owner:
            shutil.rmtree(_SCRATCH, ignore_errors=True)

    atexit.register(_cleanup)
    return _SCRATCH


def scratch_dir(tag: str = "w") -> Path:
    root = scratch_root()
    d = Path(tempfile.mkdtemp(prefix=f"{tag}-{os.getpid()}-", dir=root))
    return d
