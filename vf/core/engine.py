"""Shard pool, aggregation, known-findings matching, replay files, evidence writing."""
from __future__ import annotations

import hashlib
import importlib
import json
import multiprocessing as mp
import os
import sys
import time
import traceback
from concurrent.futures import ProcessPoolExecutor, as_completed
from dataclasses import dataclass, field
from pathlib import Path
from typing import Any

from vf.core import env

VERIF_DIR = env.VERIF_DIR


# ---------------------------------------------------------------------------------------
# results


@dataclass
class Violation:
    signature: dict[str, Any]  # {"site":..., "symptom":..., ...}
    case: dict[str, Any]  # enough to replay: {"shard":..., "inner":...}
    detail: str = ""

    def to_json(self) -> dict:
        return {"signature": self.signature, "case": self.case, "detail": self.detail}

    @staticmethod
    def from_json(d: dict) -> "Violation":
        return Violation(d["signature"], d["case"], d.get("detail", ""))


@dataclass
class ShardResult:
    evaluations: int = 0
    nontrivial: int = 0
    outcomes: dict[str, int] = field(default_factory=dict)
    violations: list[dict] = field(default_factory=list)
    samples: list[Any] = field(default_factory=list)
    counters: dict[str, float] = field(default_factory=dict)  # summed
    maxima: dict[str, float] = field(default_factory=dict)  # max-merged
    caps: list[str] = field(default_factory=list)
    skipped: dict[str, int] = field(default_factory=dict)
    notes: list[str] = field(default_factory=list)

    # helpers used by property modules ---------------------------------------------
    def outcome(self, name: str, n: int = 1) -> None:
        self.outcomes[name] = self.outcomes.get(name, 0) + n

    def count(self, name: str, n: float = 1) -> None:
        self.counters[name] = self.counters.get(name, 0) + n

    def maximum(self, name: str, v: float) -> None:
        if v == v:  # not NaN
            self.maxima[name] = max(self.maxima.get(name, float("-inf")), float(v))

    def skip(self, name: str, n: int = 1) -> None:
        self.skipped[name] = self.skipped.get(name, 0) + n

    def violation(self, signature: dict, case: dict, detail: str = "", *, per_sig_cap: int = 3) -> None:
        key = json.dumps(signature, sort_keys=True, default=str)
        n = sum(1 for v in self.violations if json.dumps(v["signature"], sort_keys=True, default=str) == key)
        self.count("violating_cases")
        if n < per_sig_cap:
            self.violations.append(Violation(signature, case, detail[:2000]).to_json())

    def sample(self, s: Any, cap: int = 3) -> None:
        if len(self.samples) < cap:
            self.samples.append(s)

    def merge(self, o: "ShardResult") -> None:
        self.evaluations += o.evaluations
        self.nontrivial += o.nontrivial
        for k, v in o.outcomes.items():
            self.outcomes[k] = self.outcomes.get(k, 0) + v
        for k, v in o.counters.items():
            self.counters[k] = self.counters.get(k, 0) + v
        for k, v in o.maxima.items():
            self.maxima[k] = max(self.maxima.get(k, float("-inf")), v)
        for k, v in o.skipped.items():
            self.skipped[k] = self.skipped.get(k, 0) + v
        self.violations.extend(o.violations)
        for s in o.samples:
            if len(self.samples) < 6:
                self.samples.append(s)
        for c in o.caps:
            if c not in self.caps:
                self.caps.append(c)
        for n in o.notes:
            if n not in self.notes and len(self.notes) < 20:
                self.notes.append(n)


@dataclass
class Ctx:
    prop: str
    tier: str
    seed: int
    repo: str
    scratch: str

    def workdir(self, tag: str = "w") -> Path:
        os.environ["VF_SCRATCH"] = self.scratch
        return env.scratch_dir(tag)


# ---------------------------------------------------------------------------------------
# worker side


def _worker_init(environ: dict, syspath: list[str]) -> None:
    os.environ.update(environ)
    for p in reversed(syspath):
        if p not in sys.path:
            sys.path.insert(0, p)
    sys.dont_write_bytecode = True


def _library_frame(e: BaseException, repo: str) -> str | None:
    """'module.function' of the innermost traceback frame that lies in the library under test, or None."""
    root = str(Path(repo).resolve()) + os.sep
    site = None
    for fs in traceback.extract_tb(e.__traceback__):
        fn = str(Path(fs.filename).resolve()) if fs.filename and not fs.filename.startswith("<") else ""
        if fn.startswith(root + "sigpyproc"):
            site = f"{Path(fn).stem}.{fs.name}"
    return site


def _run_shard(modname: str, shard: Any, ctx: Ctx, only: Any = None) -> dict:
    import shutil

    t0 = time.time()
    try:
        mod = importlib.import_module(modname)
        res = ShardResult()
        mod.run_shard(shard, ctx, res, only)
        out = res.__dict__.copy()
        out["_wall"] = time.time() - t0
        return out
    except BaseException as e:  # noqa: BLE001
        tb = traceback.format_exc()
        site = _library_frame(e, ctx.repo)
        if site is not None and isinstance(e, Exception):
            # the exception comes out of the library under test and no oracle of the check was prepared for it: that is a finding about the
            # library (on the unchanged tree no check lets one escape), not a defect of the harness
            res = ShardResult()
            res.evaluations += 1
            res.violation({"site": site, "symptom": f"raised {type(e).__name__} (not anticipated by any oracle of the check)"},
                          {"shard": shard, "inner": only, "no_reproduce": True}, tb[-1500:])
            out = res.__dict__.copy()
            out["_wall"] = time.time() - t0
            return out
        return {"_error": tb, "_shard": repr(shard)[:500]}
    finally:
        # remove per-process scratch dirs eagerly (tmpfs is finite)
        root = Path(ctx.scratch)
        for d in root.glob(f"*-{os.getpid()}-*"):
            shutil.rmtree(d, ignore_errors=True)


STALL_TIMEOUT = float(os.environ.get("VF_STALL_TIMEOUT", "2400"))


def _completed_or_stalled(futs: dict, ex):
    """as_completed with a watchdog: if no shard finishes for STALL_TIMEOUT seconds (a worker deadlocked, e.g. in malloc after heap corruption, or
    loops forever), the pool's processes are killed; the shards that were running or waiting are then re-run one per process with a time limit."""
    from concurrent.futures import FIRST_COMPLETED, wait

    pending = set(futs)
    last = time.time()
    while pending:
        done, pending = wait(pending, timeout=15, return_when=FIRST_COMPLETED)
        if done:
            last = time.time()
            yield from done
        elif time.time() - last > STALL_TIMEOUT:
            for p in list(getattr(ex, "_processes", {}).values()):
                try:
                    p.kill()
                except Exception:  # noqa: BLE001, S110
                    pass
            last = time.time()  # the broken pool now fails every pending future; they are collected on the next rounds


def run_shards(modname: str, shards: list, ctx: Ctx, nworkers: int) -> tuple[ShardResult, list[str]]:
    total = ShardResult()
    errors: list[str] = []
    if not shards:
        return total, ["no shards generated"]
    nworkers = max(1, min(nworkers, len(shards)))
    if nworkers == 1:
        for sh in shards:
            d = _run_shard(modname, sh, ctx)
            if "_error" in d:
                errors.append(d["_error"] + "\nshard=" + d["_shard"])
                continue
            d.pop("_wall", None)
            total.merge(ShardResult(**d))
        return total, errors
    mpctx = mp.get_context("spawn")
    environ = {k: v for k, v in os.environ.items() if k.startswith(("VF_", "VERIF_", "NUMBA_", "OMP_", "PYTHON", "MPL"))}
    unfinished: list = []
    with ProcessPoolExecutor(
        max_workers=nworkers,
        mp_context=mpctx,
        initializer=_worker_init,
        initargs=(environ, list(sys.path)),
    ) as ex:
        futs = {ex.submit(_run_shard, modname, sh, ctx): sh for sh in shards}
        for f in _completed_or_stalled(futs, ex):
            try:
                d = f.result(timeout=0)
            except BaseException:  # noqa: BLE001 - a worker process died (e.g. memory corruption in compiled code) or the pool stalled
                unfinished.append(futs[f])
                continue
            if "_error" in d:
                errors.append(d["_error"] + "\nshard=" + d["_shard"])
                continue
            d.pop("_wall", None)
            total.merge(ShardResult(**d))
            if os.environ.get("VF_FAIL_FAST") and total.violations:
                # mutation analysis only: the first violating shard decides; never set by the registered commands
                for g in futs:
                    g.cancel()
                ex.shutdown(wait=False, cancel_futures=True)
                break
    if unfinished:
        _isolated(modname, unfinished, ctx, total, errors, nworkers)
    return total, errors


ISOLATED_SHARD_TIMEOUT = float(os.environ.get("VF_SHARD_TIMEOUT", "900"))


def _isolated(modname: str, shards: list, ctx: Ctx, total: ShardResult, errors: list[str], nworkers: int) -> None:
    """Re-run shards one per process after the pool broke; a shard that kills its interpreter is a violation."""
    import subprocess
    import tempfile

    jobs = []
    tmp = Path(tempfile.mkdtemp(prefix="iso-", dir=ctx.scratch))
    for i, sh in enumerate(shards):
        jf, of = tmp / f"job{i}.json", tmp / f"out{i}.json"
        jf.write_text(json.dumps({"modname": modname, "shard": sh, "ctx": ctx.__dict__,
                                  "num_threads": (int(os.environ["NUMBA_NUM_THREADS"]) if os.environ.get("NUMBA_NUM_THREADS") else None)}, default=_json_default))
        jobs.append((sh, jf, of))
    running: list = []
    pending = list(jobs)
    done = []
    ndead = 0
    while pending or running:
        while pending and len(running) < nworkers:
            sh, jf, of = pending.pop(0)
            p = subprocess.Popen([sys.executable, "-m", "vf.worker", str(jf), str(of)], cwd=str(VERIF_DIR),
                                 stdout=subprocess.DEVNULL, stderr=subprocess.PIPE)
            p._vf_started = time.time()
            running.append((p, sh, of))
        for item in list(running):
            p, sh, of = item
            if p.poll() is None:
                # a corrupted heap can deadlock inside malloc instead of aborting: a shard that exceeds the limit is killed and reported like a crash
                if time.time() - p._vf_started > ISOLATED_SHARD_TIMEOUT:
                    p.kill()
                continue
            running.remove(item)
            err = (p.stderr.read() or b"").decode(errors="replace")[-800:]
            done.append((p.returncode, sh, of, err))
            if p.returncode != 0:
                ndead += 1
        if ndead >= 3 and (pending or running):
            # the violation is established; re-running every remaining shard up to its time limit would only take hours
            total.caps.append(f"{len(pending) + len(running)} shards were not re-run after 3 isolated shards died or hung")
            for p, _sh, _of in running:
                p.kill()
            pending, running = [], []
        time.sleep(0.05)
    for rc, sh, of, err in done:
        if rc == 0 and of.exists():
            d = json.loads(of.read_text())
            if "_error" in d:
                errors.append(d["_error"] + "\nshard=" + d["_shard"])
                continue
            d.pop("_wall", None)
            total.merge(ShardResult(**d))
        else:
            total.evaluations += 1
            total.violations.append(Violation(
                {"site": "process", "symptom": "interpreter died or hung while running the shard (crash in compiled code: out-of-bounds write?)"},
                {"shard": sh, "inner": None, "no_reproduce": True},
                f"exit status {rc}; stderr tail: {err}").to_json())


def run_case_isolated(modname: str, shard: Any, only: Any, ctx: Ctx) -> tuple[str, ShardResult | None, str]:
    """Re-run one case in its own interpreter (a case that corrupts memory must not take the reporting process with it).

    Returns ("ok", result, ""), ("error", None, traceback) or ("died", None, stderr tail)."""
    import subprocess
    import tempfile

    tmp = Path(tempfile.mkdtemp(prefix="case-", dir=ctx.scratch))
    jf, of = tmp / "job.json", tmp / "out.json"
    jf.write_text(json.dumps({"modname": modname, "shard": shard, "only": only, "ctx": ctx.__dict__,
                              "num_threads": (int(os.environ["NUMBA_NUM_THREADS"]) if os.environ.get("NUMBA_NUM_THREADS") else None)}, default=_json_default))
    try:
        p = subprocess.run([sys.executable, "-m", "vf.worker", str(jf), str(of)], cwd=str(VERIF_DIR), capture_output=True, text=True, timeout=ISOLATED_SHARD_TIMEOUT)
    except subprocess.TimeoutExpired:
        return "died", None, f"no result within {ISOLATED_SHARD_TIMEOUT:.0f} s (killed)"
    if p.returncode != 0 or not of.exists():
        return "died", None, f"exit status {p.returncode}; stderr tail: {(p.stderr or '')[-600:]}"
    d = json.loads(of.read_text())
    if "_error" in d:
        return "error", None, d["_error"]
    d.pop("_wall", None)
    return "ok", ShardResult(**d), ""


# ---------------------------------------------------------------------------------------
# known findings


def load_findings(prop: str) -> list[dict]:
    p = Path(os.environ.get("VF_FINDINGS") or (VERIF_DIR / "known_findings.json"))  # override only for self-tests of this mechanism
    if not p.exists():
        return []
    data = json.loads(p.read_text())
    return [e for e in data.get("findings", []) if e.get("property") == prop and e.get("status") == "open"]


def match_finding(sig: dict, findings: list[dict]) -> dict | None:
    for f in findings:
        m = f.get("match", {})
        if m and all(sig.get(k) == v for k, v in m.items()):
            return f
    return None


def sig_key(sig: dict) -> str:
    return json.dumps(sig, sort_keys=True, default=str)


def write_replay(prop: str, v: dict) -> str:
    d = VERIF_DIR / "replays" / prop
    d.mkdir(parents=True, exist_ok=True)
    blob = json.dumps({"property": prop, **v}, sort_keys=True, indent=1, default=_json_default)
    name = hashlib.sha256(blob.encode()).hexdigest()[:16] + ".json"
    (d / name).write_text(blob)
    return str(d / name)


def _json_default(o: Any):
    try:
        import numpy as np

        if isinstance(o, np.integer):
            return int(o)
        if isinstance(o, np.floating):
            return float(o)
        if isinstance(o, np.ndarray):
            return o.tolist()
        if isinstance(o, np.bool_):
            return bool(o)
    except ImportError:
        pass
    if isinstance(o, (set, tuple)):
        return list(o)
    if isinstance(o, bytes):
        return o.hex()
    return repr(o)


def write_evidence(prop: str, payload: dict) -> None:
    d = VERIF_DIR / "evidence"
    if os.environ.get("VF_KEEP_EVIDENCE"):
        # runs against scratch copies of the repository (seeded changes) must not replace the evidence of /repo
        d = Path(os.environ.get("VF_SCRATCH", "/tmp")) / "evidence"
    d.mkdir(parents=True, exist_ok=True)
    tmp = d / f".{prop}.json.tmp"
    tmp.write_text(json.dumps(payload, indent=1, sort_keys=True, default=_json_default))
    tmp.replace(d / f"{prop}.json")
