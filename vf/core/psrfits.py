"""Synthesis of small search-mode PSRFITS files (astropy.io.fits) and an independent decoder."""
from __future__ import annotations

import numpy as np

from vf.core import fixtures as fx

POL_TYPES = {"coherence": ("AABBCRCI", 4), "stokes": ("IQUV", 4), "intensity": ("AA+BB", 1), "ppqq": ("AABB", 2)}


def make_psrfits(path, raw, nbits, layout, freqs, *, scl, offs, wts, zero_off=0.0, tbin=64e-6, imjd=58000, smjd=1000, offs_s=0.25, nstot=None):
    """raw: int array [nsub, nsblk, npol, nchan] of digitised values (0..2^nbits-1)."""
    from astropy.io import fits

    nsub, nsblk, npol, nchan = raw.shape
    pol_type, np_expected = POL_TYPES[layout]
    assert npol == np_expected
    pri = fits.PrimaryHDU()
    h = pri.header
    for k, v in [("FITSTYPE", "PSRFITS"), ("OBS_MODE", "SEARCH"), ("TELESCOP", "Parkes"), ("BACKEND", "VFSYNTH"), ("SRC_NAME", "J0000-0000"),
                 ("RA", "05:34:31.900"), ("DEC", "-00:30:52.000"), ("STT_IMJD", imjd), ("STT_SMJD", smjd), ("STT_OFFS", offs_s),
                 ("ANT_X", -4554231.6), ("ANT_Y", 2816759.1), ("ANT_Z", -3454036.1), ("BE_PHASE", 1), ("BE_DCC", 1), ("BE_DELAY", 0.0),
                 ("TCYCLE", 0), ("BECONFIG", "vf"), ("OBSFREQ", float(np.mean(freqs))), ("OBSBW", float(abs(freqs[-1] - freqs[0]))), ("OBSNCHAN", nchan),
                 ("DATE-OBS", "2017-09-04T00:16:40"), ("FRONTEND", "UWL"), ("NRCVR", 2), ("FD_POLN", "LIN"), ("FD_HAND", -1), ("FD_SANG", 0.0),
                 ("FD_XYPH", 0.0), ("FD_MODE", "FA"), ("FA_REQ", 0.0), ("OBSERVER", "vf"), ("PROJID", "P000"), ("IBEAM", 1)]:
        h[k] = v
    nbytes_t = nsblk * nbits // 8 if nbits < 8 else nsblk
    rows = []
    for i in range(nsub):
        flat = raw[i].reshape(-1)
        if nbits < 8:
            b = np.frombuffer(fx.ref_pack(flat.astype(np.uint8), nbits, "big"), dtype=np.uint8)
        else:
            b = flat.astype(np.uint8)
        rows.append(b)
    data = np.stack(rows)
    cols = [
        fits.Column(name="INDEXVAL", format="1D", array=np.arange(nsub, dtype=float)),
        fits.Column(name="TSUBINT", format="1D", unit="s", array=np.full(nsub, nsblk * tbin)),
        fits.Column(name="OFFS_SUB", format="1D", unit="s", array=(np.arange(nsub) + 0.5) * nsblk * tbin),
        fits.Column(name="DAT_FREQ", format=f"{nchan}D", unit="MHz", array=np.tile(np.asarray(freqs, dtype=float), (nsub, 1))),
        fits.Column(name="DAT_WTS", format=f"{nchan}E", array=np.asarray(wts, dtype=np.float32).reshape(nsub, nchan)),
        fits.Column(name="DAT_OFFS", format=f"{nchan * npol}E", array=np.asarray(offs, dtype=np.float32).reshape(nsub, npol * nchan)),
        fits.Column(name="DAT_SCL", format=f"{nchan * npol}E", array=np.asarray(scl, dtype=np.float32).reshape(nsub, npol * nchan)),
        fits.Column(name="DATA", format=f"{data.shape[1]}B", dim=f"({nchan},{npol},{nbytes_t})", array=data),
    ]
    tab = fits.BinTableHDU.from_columns(cols, name="SUBINT")
    sh = tab.header
    for k, v in [("POL_TYPE", pol_type), ("NPOL", npol), ("TBIN", tbin), ("NBITS", nbits), ("ZERO_OFF", float(zero_off)), ("SIGNINT", 0),
                 ("NSUBOFFS", 0), ("NCHAN", nchan), ("CHAN_BW", float(freqs[1] - freqs[0]) if nchan > 1 else -1.0), ("NCHNOFFS", 0), ("NSBLK", nsblk),
                 ("NSTOT", nsub * nsblk if nstot is None else nstot)]:
        sh[k] = v
    fits.HDUList([pri, tab]).writeto(path, overwrite=True)


def decode(raw, layout, freqs, scl, offs, wts, zero_off):
    """Independent decode -> float64 array [nsamples, nchan] in descending-frequency order."""
    nsub, nsblk, npol, nchan = raw.shape
    v = raw.astype(np.float64) - float(zero_off)
    s = np.asarray(scl, dtype=np.float32).astype(np.float64).reshape(nsub, 1, npol, nchan)
    o = np.asarray(offs, dtype=np.float32).astype(np.float64).reshape(nsub, 1, npol, nchan)
    w = np.asarray(wts, dtype=np.float32).astype(np.float64).reshape(nsub, 1, 1, nchan)
    v = (v * s + o) * w
    if layout == "coherence":
        out = (v[:, :, 0, :] + v[:, :, 1, :]) / np.sqrt(2.0)
    else:
        out = v[:, :, 0, :]
    out = out.reshape(nsub * nsblk, nchan)
    if freqs[-1] > freqs[0]:
        out = out[:, ::-1]
    return out
