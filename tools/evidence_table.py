#!/usr/bin/env python3
"""Print a markdown table of what the last run of every check covered (from evidence/*.json)."""
import json, glob, os
print("| id | level | tier | evaluations | distinct non-trivial | states / transitions / schedules / crash states | wall (s) |\n|---|---|---|---|---|---|---|")
for f in sorted(glob.glob(os.path.join(os.path.dirname(__file__), "..", "evidence", "C*.json"))):
    d = json.load(open(f)); c = d["coverage"]
    extra = " / ".join(f"{k}={c[k]}" for k in ("states", "transitions", "schedules", "crash_states") if k in c) or "-"
    print(f"| {d['property_id']} | {d['level']} | {d['tier']} | {c['evaluations']} | {c['distinct_nontrivial']} | {extra} | {d['wall_s']:.0f} |")
