#!/venv/bin/python
"""Systematic first-order mutation of the functions the properties are anchored in, judged by the property's own check.

usage: tools/mutate.py [--props C01,C05] [--per-prop 24] [--workers 4] [--out /dev/shm/mutate] [--suite]

For every property the `anchors.mechanism[].where` line ranges (given against the pinned snapshot) are mapped to the functions that
contain them in the pinned snapshot; those functions are mutated in the CURRENT tree (one AST node per mutant: relational and
arithmetic operator swaps, and/or, min/max, small integer constants +1, unary minus removal, deletion of an assignment or call
statement), the mutated function is spliced back into the file (the rest of the file keeps its text), and the property's quick
check runs against a scratch worktree holding the mutant. rc=1 + VIOLATION = killed; rc=0 = survived; anything else = invalid
(does not import / harness error). With --suite the survivors are also run through the repository's test-suite.

Nothing is written to /repo; worktrees live under /tmp and are removed at the end. The report is written to <out>/report.json.
"""
from __future__ import annotations

import argparse
import ast
import copy
import json
import os
import re
import shutil
import subprocess
import sys
import tempfile
from concurrent.futures import ThreadPoolExecutor
from pathlib import Path

VERIF = Path(__file__).resolve().parents[1]
REPO = Path("/repo")


def sh(cmd, cwd=None, env=None, timeout=3600):
    """Run in its own process group; on timeout the whole group (pool workers included) is killed. rc = -9 then."""
    import signal

    p = subprocess.Popen(cmd, cwd=cwd, env=env, stdout=subprocess.PIPE, stderr=subprocess.STDOUT, text=True, start_new_session=True)
    try:
        out, _ = p.communicate(timeout=timeout)
        return p.returncode, out
    except subprocess.TimeoutExpired:
        try:
            os.killpg(p.pid, signal.SIGKILL)
        except ProcessLookupError:
            pass
        out, _ = p.communicate()
        return -9, (out or "") + "\nTIMEOUT"


def base_commit() -> str:
    rc, out = sh(["git", "-C", str(REPO), "log", "--format=%H %s"])
    for line in out.splitlines():
        h, _, subj = line.partition(" ")
        if not subj.startswith("fix:"):
            return h
    raise RuntimeError("no base commit")


def parse_where(where: str):
    """'a.py:10-20, 30-40, b.py:5' -> [(file, lo, hi), ...]"""
    out = []
    cur = None
    for part in where.split(","):
        part = part.strip()
        m = re.match(r"([\w/\.]+\.py):(.*)", part)
        if m:
            cur = m.group(1)
            part = m.group(2).strip()
        if cur is None:
            continue
        m = re.match(r"(\d+)(?:-(\d+))?$", part)
        if not m:
            continue
        lo = int(m.group(1))
        hi = int(m.group(2) or lo)
        f = cur if cur.startswith("sigpyproc/") else None
        if f is None:
            cands = [p for p in ("sigpyproc/core/" + cur, "sigpyproc/io/" + cur, "sigpyproc/" + cur)]
            f = next((c for c in cands if (REPO / c).exists()), None)
        if f:
            out.append((f, lo, hi))
    return out


def funcs_covering(src: str, lo: int, hi: int):
    tree = ast.parse(src)
    names = []

    def visit(node, prefix):
        for ch in ast.iter_child_nodes(node):
            if isinstance(ch, (ast.FunctionDef, ast.AsyncFunctionDef)):
                start = min([ch.lineno, *[d.lineno for d in ch.decorator_list]])
                if start <= hi and ch.end_lineno >= lo:
                    names.append(prefix + ch.name)
                visit(ch, prefix + ch.name + ".")
            elif isinstance(ch, ast.ClassDef):
                visit(ch, prefix + ch.name + ".")

    visit(tree, "")
    # keep innermost-only duplicates out: a method name "A.f" is enough
    return names


def find_func(tree, qual: str):
    node = tree
    for part in qual.split("."):
        nxt = None
        for ch in ast.iter_child_nodes(node):
            if isinstance(ch, (ast.FunctionDef, ast.AsyncFunctionDef, ast.ClassDef)) and ch.name == part:
                nxt = ch
                break
        if nxt is None:
            return None
        node = nxt
    return node if isinstance(node, (ast.FunctionDef, ast.AsyncFunctionDef)) else None


SWAP_CMP = {ast.Lt: ast.LtE, ast.LtE: ast.Lt, ast.Gt: ast.GtE, ast.GtE: ast.Gt, ast.Eq: ast.NotEq, ast.NotEq: ast.Eq}
SWAP_BIN = {ast.Add: ast.Sub, ast.Sub: ast.Add, ast.Mult: ast.FloorDiv, ast.FloorDiv: ast.Mult, ast.Mod: ast.FloorDiv}


def mutation_sites(func):
    """Yield (description, apply(func_copy_node_index)) - implemented by enumerating nodes in a stable walk order."""
    nodes = list(ast.walk(func))
    sites = []
    doc_consts = set()
    for n in nodes:
        if isinstance(n, (ast.FunctionDef, ast.AsyncFunctionDef)) and n.body and isinstance(n.body[0], ast.Expr) and isinstance(getattr(n.body[0], "value", None), ast.Constant):
            doc_consts.add(id(n.body[0].value))
    in_decorators = {id(x) for d in func.decorator_list for x in ast.walk(d)}
    in_annotations = set()
    for n in nodes:
        for field in ("annotation", "returns"):
            a = getattr(n, field, None)
            if a is not None:
                in_annotations |= {id(x) for x in ast.walk(a)}
    for i, n in enumerate(nodes):
        if id(n) in in_decorators or id(n) in in_annotations:
            continue
        line = getattr(n, "lineno", 0)
        if isinstance(n, ast.Compare) and len(n.ops) == 1 and type(n.ops[0]) in SWAP_CMP:
            sites.append((i, "cmp", f"L{line}: {type(n.ops[0]).__name__} -> {SWAP_CMP[type(n.ops[0])].__name__}"))
        elif isinstance(n, ast.BinOp) and type(n.op) in SWAP_BIN:
            sites.append((i, "bin", f"L{line}: {type(n.op).__name__} -> {SWAP_BIN[type(n.op)].__name__}"))
        elif isinstance(n, ast.AugAssign) and type(n.op) in (ast.Add, ast.Sub):
            sites.append((i, "aug", f"L{line}: augmented {type(n.op).__name__} swapped"))
        elif isinstance(n, ast.BoolOp):
            sites.append((i, "bool", f"L{line}: and/or swapped"))
        elif isinstance(n, ast.Call) and isinstance(n.func, ast.Name) and n.func.id in ("min", "max"):
            sites.append((i, "minmax", f"L{line}: {n.func.id} swapped"))
        elif isinstance(n, ast.Constant) and isinstance(n.value, int) and not isinstance(n.value, bool) and 0 <= n.value <= 16 and id(n) not in doc_consts:
            sites.append((i, "const", f"L{line}: constant {n.value} -> {n.value + 1}"))
        elif isinstance(n, ast.UnaryOp) and isinstance(n.op, ast.USub) and not isinstance(n.operand, ast.Constant):
            sites.append((i, "usub", f"L{line}: unary minus removed"))
        elif isinstance(n, ast.UnaryOp) and isinstance(n.op, ast.Not):
            sites.append((i, "not", f"L{line}: 'not' removed"))
        elif isinstance(n, (ast.Assign, ast.AugAssign, ast.Expr)) and not (isinstance(n, ast.Expr) and isinstance(n.value, ast.Constant)):
            sites.append((i, "del", f"L{line}: statement deleted"))
    return sites


def apply_mutation(func, idx: int, kind: str):
    f2 = copy.deepcopy(func)
    nodes = list(ast.walk(f2))
    n = nodes[idx]
    if kind == "cmp":
        n.ops = [SWAP_CMP[type(n.ops[0])]()]
    elif kind == "bin":
        n.op = SWAP_BIN[type(n.op)]()
    elif kind == "aug":
        n.op = ast.Sub() if isinstance(n.op, ast.Add) else ast.Add()
    elif kind == "bool":
        n.op = ast.Or() if isinstance(n.op, ast.And) else ast.And()
    elif kind == "minmax":
        n.func.id = "max" if n.func.id == "min" else "min"
    elif kind == "const":
        n.value = n.value + 1
    elif kind in ("usub", "not"):
        # replace the node by its operand in its parent
        for p in nodes:
            for field, val in ast.iter_fields(p):
                if val is n:
                    setattr(p, field, n.operand)
                elif isinstance(val, list) and n in val:
                    val[val.index(n)] = n.operand
    elif kind == "del":
        for p in nodes:
            for field, val in ast.iter_fields(p):
                if isinstance(val, list) and n in val:
                    val[val.index(n)] = ast.Pass()
    ast.fix_missing_locations(f2)
    return f2


def splice(src: str, func, new_func) -> str:
    lines = src.splitlines(keepends=True)
    start = min([func.lineno, *[d.lineno for d in func.decorator_list]]) - 1
    end = func.end_lineno
    indent = re.match(r"\s*", lines[start]).group(0)
    text = ast.unparse(new_func)
    new = "".join(indent + ln + "\n" if ln.strip() else "\n" for ln in text.splitlines())
    return "".join(lines[:start]) + new + "".join(lines[end:])


def make_worktree(tag: str) -> Path:
    d = Path(tempfile.mkdtemp(prefix=f"mutate-{tag}-", dir="/tmp"))
    d.rmdir()
    rc, out = sh(["git", "-C", str(REPO), "worktree", "add", "--detach", "-q", str(d), "HEAD"])
    if rc:
        raise RuntimeError(out)
    egg = REPO / "sigpyproc.egg-info"
    if egg.exists():
        shutil.copytree(egg, d / "sigpyproc.egg-info")
    return d


def drop_worktree(d: Path) -> None:
    sh(["git", "-C", str(REPO), "worktree", "remove", "--force", str(d)])
    shutil.rmtree(d, ignore_errors=True)
    sh(["git", "-C", str(REPO), "worktree", "prune"])


def main() -> int:
    ap = argparse.ArgumentParser()
    ap.add_argument("--props", default="")
    ap.add_argument("--per-prop", type=int, default=24)
    ap.add_argument("--workers", type=int, default=4)
    ap.add_argument("--out", default="/dev/shm/mutate")
    ap.add_argument("--suite", action="store_true")
    ap.add_argument("--check-workers", type=int, default=8)
    ap.add_argument("--timeout", type=int, default=420, help="seconds per check run; a mutant that hangs the check counts as killed(timeout)")
    ap.add_argument("--recheck", default="", help="results.jsonl of an earlier campaign: re-create its suite-green survivors and run the checks given with --with on them")
    ap.add_argument("--with", dest="with_checks", default="", help="comma separated check ids for --recheck")
    ap.add_argument("--offset", type=int, default=0, help="rotate the evenly spaced selection (to draw a different sample)")
    args = ap.parse_args()
    out = Path(args.out)
    out.mkdir(parents=True, exist_ok=True)
    base = base_commit()
    props = [json.loads(l) for l in open(VERIF / "properties.jsonl")]
    want = set(args.props.split(",")) if args.props else None
    jobs = []
    for p in props:
        if want and p["id"] not in want:
            continue
        targets = {}
        for m in p["anchors"]["mechanism"]:
            for f, lo, hi in parse_where(m["where"]):
                rc, old = sh(["git", "-C", str(REPO), "show", f"{base}:{f}"])
                if rc:
                    continue
                for q in funcs_covering(old, lo, hi):
                    targets.setdefault(f, set()).add(q)
        cands = []
        for f, quals in sorted(targets.items()):
            src = (REPO / f).read_text()
            tree = ast.parse(src)
            for q in sorted(quals):
                fn = find_func(tree, q)
                if fn is None:
                    continue
                # skip outer functions when an inner one is also listed (avoid double counting is not needed: sites are per function body walk)
                for idx, kind, desc in mutation_sites(fn):
                    cands.append((f, q, idx, kind, desc))
        if not cands:
            continue
        # evenly spaced, deterministic selection
        k = min(args.per_prop, len(cands))
        step = len(cands) / k
        chosen = [cands[int((i * step + args.offset) % len(cands))] for i in range(k)]
        seen = set()
        for c in chosen:
            if c in seen:
                continue
            seen.add(c)
            jobs.append((p["id"], *c))
        print(f"{p['id']}: {len(cands)} sites in {sum(len(v) for v in targets.values())} functions, {len(seen)} chosen", flush=True)
    if args.recheck:
        jobs = []
        seen = set()
        for line in open(args.recheck):
            r = json.loads(line)
            if r.get("result") != "survived" or r.get("suite") != "green":
                continue
            src = (REPO / r["file"]).read_text()
            fn = find_func(ast.parse(src), r["func"])
            if fn is None:
                continue
            for idx, kind, desc in mutation_sites(fn):
                if desc == r["mutation"] and kind == r.get("kind"):
                    for chk in args.with_checks.split(","):
                        key = (chk, r["file"], r["func"], idx, kind)
                        if chk and chk != r["prop"] and key not in seen:
                            seen.add(key)
                            jobs.append((chk, r["file"], r["func"], idx, kind, desc + f" [survivor of {r['prop']}]"))
                    break
        print(f"recheck: {len(jobs)} runs", flush=True)
    wts = [make_worktree(f"w{i}") for i in range(args.workers)]
    free = list(range(args.workers))
    results = []

    def run(job):
        pid, f, q, idx, kind, desc = job
        w = free.pop()
        wt = wts[w]
        try:
            src = (REPO / f).read_text()
            tree = ast.parse(src)
            fn = find_func(tree, q)
            new_src = splice(src, fn, apply_mutation(fn, idx, kind))
            try:
                compile(new_src, f, "exec")
            except SyntaxError as e:
                return {"prop": pid, "file": f, "func": q, "mutation": desc, "result": "invalid", "why": f"syntax: {e}"}
            (wt / f).write_text(new_src)
            env = dict(os.environ, VERIF_REPO=str(wt), VERIF_SEED="0", VF_KEEP_EVIDENCE="1", VF_FAIL_FAST="1")
            if not f.endswith("kernels.py"):
                env["VF_TREE_HASH"] = f"mutate-worker-{w}"  # kernels untouched: the numba cache of this worktree stays valid
            else:
                env["VF_TREE_HASH"] = f"mutate-worker-{w}-k"
            rc, outp = sh([str(VERIF / "check"), pid, "--tier", "quick", "--workers", str(args.check_workers)], cwd=str(VERIF), env=env, timeout=args.timeout)
            if rc == -9:
                return {"prop": pid, "file": f, "func": q, "mutation": desc, "kind": kind, "result": "killed(timeout)"}
            if rc == 1 and f"VIOLATION property={pid}" in outp:
                res = "killed"
            elif rc == 0:
                res = "survived"
            else:
                res = "killed(harness)" if "HARNESS-ERROR" in outp or rc == 2 else f"other(rc={rc})"
            r = {"prop": pid, "file": f, "func": q, "mutation": desc, "kind": kind, "result": res}
            if res == "survived" and args.suite:
                rcs, outs = sh([str(VERIF / "tools" / "baseline.py"), str(wt)], timeout=3000)
                r["suite"] = "green" if rcs == 0 else "red"
            if res != "killed":
                r["tail"] = outp[-300:]
                diff_rc, diff = sh(["git", "-C", str(wt), "diff", "--", f])
                r["diff"] = diff[-3000:]
            return r
        except Exception as e:  # noqa: BLE001
            return {"prop": pid, "file": f, "func": q, "mutation": desc, "result": "invalid", "why": repr(e)}
        finally:
            sh(["git", "-C", str(wt), "checkout", "--", "."])
            free.append(w)

    try:
        with ThreadPoolExecutor(max_workers=args.workers) as ex:
            for r in ex.map(run, jobs):
                results.append(r)
                with open(out / "results.jsonl", "a") as fp:
                    fp.write(json.dumps(r) + "\n")
                print(json.dumps({k: v for k, v in r.items() if k not in ("diff", "tail")}), flush=True)
    finally:
        for wt in wts:
            drop_worktree(wt)
    summary = {}
    for r in results:
        s = summary.setdefault(r["prop"], {})
        s[r["result"]] = s.get(r["result"], 0) + 1
    (out / "report.json").write_text(json.dumps({"summary": summary, "results": results}, indent=1))
    print(json.dumps(summary, indent=1))
    return 0


if __name__ == "__main__":
    sys.exit(main())
