#!/usr/bin/env python3
"""Print the markdown table of seeded changes from seeded/*/meta.json."""
import json, glob, os
rows = []
for f in sorted(glob.glob(os.path.join(os.path.dirname(__file__), "..", "seeded", "*", "meta.json"))):
    m = json.load(open(f))
    rows.append(f"| {m['id']} | {m['breaks']} | {m['needs_to_manifest']} | {', '.join(m['detected_by'])}{' (' + m['note'] + ')' if m.get('note') else ''} |")
print("| seeded change | what it changes | what it needs to manifest | caught by |\n|---|---|---|---|")
print("\n".join(rows))
