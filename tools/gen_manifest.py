#!/usr/bin/env python3-vt
"""Generate /verif/MANIFEST.json from the table below (single source of truth) and validate it."""
import json
import sys
from pathlib import Path

VERIF = Path(__file__).resolve().parents[1]

ALL = [f"C{i:02d}" for i in range(1, 21)]

# id -> (category, technique, level text, level note, design ref)
CHECKS = {
    "C01": (
        "exploration",
        "bounded-exhaustive enumeration of read plans on real files against a labelled reference array",
        "Every (depth, nchans, N<=6/9, split over 1..3 files, gulp, start, nsamps, skipback) plan inside the bound is "
        "executed on the real FilReader and compared sample-by-sample (provenance labels) with the array the files were "
        "written from; accept/reject classes are checked against the statement. Exhaustive inside the bound, nothing above it.",
        "Trusted: /verif's own SIGPROC writer and bit packer, numpy, tmpfs regular-file semantics (no short reads). "
        "Sample values are labels, not enumerated (read_plan is data-oblivious).",
        "DESIGN.md section 3 C01",
    ),
    "C02": (
        "model_checking",
        "explicit-state BFS to closure over real FileReader states, each transition compared with a bytes model",
        "For every depth and every composition of L items over 1..3 files (empty files included) the reachable state graph of "
        "the real FileReader, keyed by (ifile_cur, tell), is explored to closure with all in-range seeks and reads (0..3 items, "
        "to/over each boundary, to/past EOF); every transition runs the real method on a fresh reader (shortest history replayed) "
        "and a bytes model and compares data, byte count and cur_data_pos_stream. Because the graph closes, histories of any "
        "length are covered for those file sets. read_block: all ranges incl. out-of-range and all ordered request pairs.",
        "Assumes (ifile_cur, file position) is the whole mutable state of FileReader (checked from vars(); extra attributes are folded "
        "into the key). Per-file lengths are whole items; no short reads injected; random long histories (thorough) are auxiliary only.",
        "DESIGN.md section 3 C02",
    ),
    "C03": (
        "exploration",
        "complete enumeration of the finite byte/field domain against a Python-integer bit-field definition",
        "All 256 byte values at every position of arrays of length 0..5(7), all field tuples per byte, 3 depths x both orders and "
        "their accepted spellings, with and without caller buffers, the full rejection matrix, and the default order per depth "
        "through the real writer and reader: the domain of the statement is finite and is covered completely.",
        "Trusted: the Python-integer reference in vf/core/fixtures.py (a vectorised form, proven equal to it on all 256 byte values at run time, is used for arrays longer than 4096 bytes). Long arrays (up to 1 M packed bytes; thorough: one array per depth and order crossing 2**31 samples) are compared element by element.",
        "DESIGN.md section 3 C03",
    ),
    "C04": (
        "exploration",
        "bounded-exhaustive enumeration of write/read round trips (depth x dtype x shape x value class; all series lengths)",
        "Every (output depth, in-memory dtype, nsamps, nchans, value class) through prep_outfile/cwrite, every small block through "
        "to_file and every series length 1..16(64) through .tim, .dat/.inf, .spec, .fft/.inf is written with the real writers, the "
        "raw file size is compared with hdrlen + n*C*nbits/8, and the matching reader must return bit-identical values with "
        "tsamp/tstart/dm preserved; a refusal (exception) is the only allowed alternative.",
        "Only values representable at the output depth are written. .inf metadata compared to 1e-12 relative. Spectrum nsamples not asserted.",
        "DESIGN.md section 3 C04",
    ),
    "C05": (
        "exploration",
        "grammar-directed exhaustive enumeration of header byte strings, field grids and (key,value) edits",
        "(a) generated well-formed header byte strings (each key x value alphabet, all ordered pairs of optional keys, all permutations "
        "of a key subset, full headers in several orders) must satisfy encode(parse(b)) == b with exact hdrlen; (b) Header -> prep_outfile "
        "-> from_sigproc over coupled-field grids (8 RA x 26 Dec x 3 frames incl. declinations in (-1,0) deg, all telescope x backend ids, "
        "channelisation/timing/nbits, names, beams, DM, angles); (c) every key (+unknown, +absent) x value alphabet through edit_header, "
        "file compared byte-for-byte with /verif's own parser.",
        "Well-formed = recognised ASCII keys, no duplicates, nchans>=1, nbits present, finite values. Sky position tolerance 0.01 arcsec.",
        "DESIGN.md section 3 C05",
    ),
    "C06": (
        "exploration",
        "bounded-exhaustive enumeration of (reduction, depth, file split, gulp, sub-range, DM) on real files vs numpy",
        "collapse, bandpass, read_chan(every c), dedisperse(DM set from all-zero delays to maxdelay=nsamps-1), compute_stats and "
        "compute_stats_basic are run for every gulp 1..N+1 and 10N and every (start,nsamps) of an N=10(16)-sample file set at depths "
        "8/32/4(/1/2) and compared exactly with numpy on X[start:start+nsamps] (integer-valued labels make float32 sums exact); results "
        "for all gulps of one sub-range are compared bit-for-bit; moments within 50*eps32*n of two-pass float64.",
        "Delay tables come from the library's own get_dmdelays (checked in C09); only non-negative delay tables; maxdelay>=nsamps skipped. "
        "Nothing above N=16 samples / 8 channels is explored.",
        "DESIGN.md section 3 C06",
    ),
    "C07": (
        "exploration",
        "bounded-exhaustive enumeration of (transform, parameters, depth, gulp, sub-range) on real files; outputs decoded independently",
        "Each of the 8 streaming transforms is run for every parameter value of a small complete domain (all masks over 4 channels, every "
        "legal band split, every tfactor x ffactor, nsub | C x DM set, ...) at every design point (gulp, start, nsamps) and the output "
        "file is decoded by /verif's own SIGPROC parser/unpacker and by the library reader: raw size must be hdrlen + n*C*nbits/8 at the "
        "declared depth and the values must equal numpy's transform of X[start:start+nsamps] (exact; floor(mean) for integer decimation; "
        "one level for zero-DM).",
        "quick uses a star design (all gulps x 3 ranges + 3 gulps x all ranges), thorough the full product. Zero-DM only on inputs that "
        "stay in range. Sub-banding only for non-negative delay tables. N<=12, C=8.",
        "DESIGN.md section 3 C07",
    ),
    "C08": (
        "exploration",
        "exhaustive enumeration of (API, parameter) cells x channelisations x sampling times; header vs data consistency oracle",
        "Every API that returns a container or writes a file (reductions, read_block incl. every sub-range and every (first channel, nchans) "
        "selection requested by float32 label and by float64 value, read_dedisp_block, all eight file writers with start in {0,3}, block and "
        "time-series derivations) is run on 5 channelisations (both signs, non-dyadic widths) x 2 sampling times and the product's header "
        "is compared with what the data are: shape, on-disk depth, tsamp x factor, tstart + start*tsamp (5 us), DM applied, per-channel "
        "labels vs the input channels the rows were built from, and the rows returned for a label request.",
        "Labels are float32 in the library, so copies are compared within 1e-3 channel widths + 4 eps32 f. block.dm is accepted as the DM "
        "record of a block. bandpass()/fold() excluded. One file size (12 x 8).",
        "DESIGN.md section 3 C08",
    ),
    "C09": (
        "exploration",
        "exhaustive enumeration of bands x DMs x references x entry points on labelled data; exact-rational delay law",
        "Part 1: the delay table for 4 bands x 3 sampling times x 11 DMs of both signs x 5 reference choices is checked for zero at the "
        "reference channel, antisymmetry, monotonicity and distance <= 0.5+1e-3(1+|d|) samples from the dispersion law evaluated in exact "
        "rationals. Part 2: block rotation, its valid-samples variant (4 references), streamed dedispersion (5 gulps), read_dedisp_block "
        "(every in-range start/nsamps, out-of-range must raise), every row of dmt_transform (full/valid, 1/3/5 steps, 2 references), pulse "
        "restoration and the DM/-DM identity are compared exactly with x[c,t+d_c] on unique labels, for every DM of a both-sign set per band.",
        "Part 2 trusts the library's own delay table (checked by part 1). For negative delays the valid outputs are accepted with their time "
        "origin advanced by -min(d). One block length (24).",
        "DESIGN.md section 3 C09",
    ),
    "C10": (
        "model_checking",
        "explicit-state BFS over all chunk compositions of a real accumulator (states merged on bit-identical moments) + all merge trees",
        "For each (mode, nchans, data class) the graph whose paths are all 2^(n-1) compositions of an n-sample stream (n=12/15) is explored "
        "breadth-first on the real ChannelStats object; states are (position, moments bytes) and are merged only when bit-identical. Every "
        "terminal state is compared with two-pass float64 (count/min/max exact and identical across all terminal states; mean/var/skew/"
        "kurtosis within 50*eps32*n; constant channels exactly zero variance/skewness; nothing non-finite). All two-way merges at every "
        "split (each side fed whole or sample-by-sample, both orders) and all three-way merges in both association orders are checked the same way.",
        "Data values come from six classes (constant, 1-bit, 8-bit, wide float, huge outlier, constant channel among normal ones) drawn from "
        "VERIF_SEED; the claim is over partitions/merges, not over all values. Single numba thread.",
        "DESIGN.md section 3 C10",
    ),
    "C11": (
        "exploration",
        "exhaustive enumeration of fold geometries x periods x accelerations x DMs x gulps on labelled files vs a float64 phase-model reference",
        "kernels.fold (counts and sums), Filterbank.fold and TimeSeries.fold are run for every (nbins, nints, nbands) the library's own "
        "10-samples-per-cell rule allows, 5 period/tsamp ratios (integer, near-integer, irrational-ish), 4-5 accelerations, DMs giving zero, "
        "small, large and negative delay tables on a descending and an ascending band, and 7 gulps incl. 2*maxdelay-1; counts must sum to "
        "(N-maxdelay)*C and equal the reference per cell, cubes must equal the per-cell means exactly and be bit-identical for all gulps; "
        "strictly periodic pulse trains must occupy one bin per sub-integration.",
        "Phase formula = the kernel's documented one in float64 from float32-rounded parameters; cases with a phase within 1e-6 of a bin edge "
        "or an empty reference cell are skipped and counted. Whole-file folds only. N=240.",
        "DESIGN.md section 3 C11",
    ),
    "C17": (
        "model_checking",
        "explicit-state search over all update histories of a real FoldedData up to a depth, differential oracle against a fresh cube",
        "All histories over an 8-operation alphabet (4 DM targets, 4 period targets with non-zero, distinct implied shifts) are executed up "
        "to depth 4 (quick: 4680 per cube) / 5 (thorough) on three cube shapes with all-distinct contents; in every reached state the cube "
        "must equal a fresh cube tuned directly to the reported (dm, period) in either call order, every profile must be a rotation of the "
        "folded profile, dm/period must be the last targets, and (dm0,p0) must give the original bits. States are keyed by all mutable fields.",
        "Targets come from a small alphabet; a seeded random walk with other targets (thorough) is auxiliary. The oracle decides history "
        "independence, not the physical size of a single shift.",
        "DESIGN.md section 3 C17",
    ),
    "C12": (
        "exploration",
        "exhaustive enumeration of all lengths (and all kernel lengths) against float64 direct evaluation",
        "For every length 1..64 (256) and five data classes (constant, impulse at every position, alternating, large dynamic range, normal): "
        "rfft().ifft() equals the zero-padded input, the spectrum equals the O(n^2) float64 DFT sum, Parseval holds, form_spec equals |bin|; "
        "for every pair 1<=m<=n<=48 (96): fftconvolve equals np.convolve and TimeSeries.correlate (array and TimeSeries argument) equals the "
        "full correlation. Odd and padded transform sizes are required outcome classes.",
        "Tolerance 16*eps32*log2(n+1)*||x|| (calibrated: observed <= 0.07 of the limit on the unchanged tree; slicing/padding errors are O(||x||)). "
        "Values from classes + VERIF_SEED; lengths above the bound not explored.",
        "DESIGN.md section 3 C12",
    ),
    "C13": (
        "exploration",
        "exhaustive enumeration of data lengths x template kinds x banks; every response value vs a float64 inner product; every pulse position",
        "For every data length 32..135 (300), good FFT size or not, 3 template kinds and 6 banks: every response convs[k,t] (all templates, all "
        "bins) is compared with the float64 inner product of the library's standardised data with the independently built zero-mean unit-norm "
        "template whose reference bin sits at t; snr/peak_bin/best_temp must be the argmax; results must be invariant under 6 affine maps; and "
        "for a grid of lengths a noiseless boxcar of every bank width at every start bin 0..n-1 (wrapping included) must be recovered at its bin and width.",
        "Tolerance 32*eps32*log2(n)*||z|| (observed <= 0.01 of it). z is the library's own standardisation (C15 covers it). Exact ties excluded. "
        "Banks that do not fit the data are out of scope.",
        "DESIGN.md section 3 C13",
    ),
    "C14": (
        "exploration",
        "complete enumeration of a small box (length x window/factor x method x dtype) against direct definitions",
        "running_filter for every length 1..12 (24), every window 1..2n+3 (odd, even, larger than the data), both methods and three dtypes is "
        "compared with the mean/median of the centred window on the multiply reflected series and must keep the input length; downsample_1d for "
        "every factor 1..n (n+1 must be refused), downsample_2d and downsample_2d_flat for every factor pair on non-square shapes, "
        "FilterbankBlock.downsample and TimeSeries.downsample (data and header), detrend_1d vs least squares and deredden = input - running filter.",
        "Even windows: either centre accepted. Integer-typed kernel outputs compared with floor(mean). Values seeded; box bounds as stated.",
        "DESIGN.md section 3 C14",
    ),
    "C15": (
        "exploration",
        "complete product of estimators x axes x shapes x data classes x affine maps with lane-by-lane and equivariance oracles",
        "All 10 scale choices x 3 location choices x axis in {None,0,1} x 3 shapes x 5 data classes (normal, 3-valued ties, constant, heavy "
        "outlier, constant lanes) x 18 affine maps: the per-axis scale and z-scores must equal the 1-D estimator applied to each lane (or the "
        "flattened data) and broadcast against the input; scale(a x+b) = |a| scale(x) and z(a x+b) = sign(a) z(x) on every lane with a safely "
        "non-zero scale; every z-score finite (zero scale falls back to one). FilterbankBlock.normalise and TimeSeries.normalise included.",
        "Equivariance only where the scale estimate exceeds 1e-6 of the lane spread; offsets tied to |a|; tolerances 1e-9 (scale) / 1e-4 (z).",
        "DESIGN.md section 3 C15",
    ),
    "C16": (
        "exploration",
        "complete enumeration of 3^8 statistics vectors x methods x thresholds vs an independent float64 thresholding reference; all application orders; all gulps",
        "(a) All 6561 eight-channel statistics vectors over {base, base+delta, outlier} x {mad, iqrm} x thresholds {1,3,5}: the statistics mask "
        "must equal an independent float64 re-implementation of double-MAD and IQRM thresholding; for a sub-grid x 6 frequency-range lists "
        "(empty, exact centre, overlapping, outside, edges, reversed) x 4 custom functions x all 6 orders of apply_mask/apply_method/apply_funcn "
        "the channel mask must be the union of the three masks and only grow. (b) clean_rfi for every gulp 1..N+1 and 10N at depths 8/32/4/2/1 "
        "with default and explicit mask values: masked channels constant at the mask value, every other sample bit-identical. (c) HDF5 round trip.",
        "Cases with |z| within 1e-4 of the threshold are skipped (none occur for the chosen alphabet). Channel centres are the library's float32 labels.",
        "DESIGN.md section 3 C16",
    ),
    "C18": (
        "exploration",
        "exhaustive enumeration of (start,nsamps), gulps and reductions on synthesised PSRFITS layouts vs an independent decoder",
        "Search-mode PSRFITS files are synthesised for 4 layouts x 2 depths x NSBLK {3,4,5}/{4,6} x 2-3(4) sub-integrations x both channel "
        "orders with non-trivial scales/offsets/weights/zero offset. For every file the reader reads in full: the whole read equals an "
        "independent decode; every (start,nsamps) (aligned or not, out-of-range must raise) equals the corresponding columns; read_plan for "
        "every gulp x sub-range x skipback in {0, <=gulp/2} delivers each sample exactly once; collapse/bandpass/read_chan/dedisperse/"
        "compute_stats for 6 gulps equal the same over a SIGPROC file with the same samples; header quantities are plain numbers in MHz/s/MJD "
        "whose channel labels describe the returned (descending) rows.",
        "Layouts the reader cannot read in full (1-pol intensity: squeeze() drops the polarisation axis; 2-pol PPQQ: no branch) are outside the "
        "statement's antecedent and reported as out_of_scope. Tiny files (<= 20 samples, 4 channels).",
        "DESIGN.md section 3 C18",
    ),
    "C20": (
        "fault_enumeration",
        "enumeration of every crash point of the recorded write history (call level; syscall level under strace) and every truncation length",
        "For 12 writers x 6 gulps x 3 depths the real write history is recorded (class-level wrappers around FileWriter.write/cwrite with an "
        "on-disk snapshot through a separate descriptor after every call) and every crash point after a write is materialised: it must start "
        "with the complete final header, be a byte-prefix of the final file and an extension of the previous state, and FilReader must open it "
        "and return exactly the first k samples; the file must be complete when the call returns (before any gc). Every byte-length truncation "
        "of every final file from hdrlen upwards is opened and read the same way. thorough: the syscall history under strace -f is replayed into "
        "a byte-array model (must equal the real file; no write below EOF, truncate or rename) and every state after a write syscall is checked.",
        "Fault model: process death between writes (kernel buffers survive); no power-loss/fsync modelling. The empty file between open and "
        "the header write is not judged. A writer that only delays whole blocks is prefix-consistent and is not flagged.",
        "DESIGN.md section 3 C20",
    ),
    "C19": (
        "model_checking",
        "stateless preemption-bounded schedule exploration + pairwise independence analysis on each kernel's own Python definition, bound to the compiled code by a conformance run",
        "Each of the 11 parallel kernels (discovered from the AST of kernels.py) is re-instantiated from its own source with the prange loop split "
        "into prelude/body(i)/postlude and all arrays wrapped in recording proxies. (1) For a lattice of shapes the read/write sets of every "
        "iteration are recorded and all iteration pairs are checked for write-write / write-read overlap - if none exists every interleaving is "
        "equivalent to the sequential one. (2) 2-3 virtual threads run every assignment of <= 3 (4) iterations under a scheduler with a "
        "scheduling point before every access to a written array; all schedules with <= 2 (3) preemptions are executed and every terminal state "
        "compared with the sequential result; a recorded schedule is replayed twice. (3) All permutations of <= 5 iterations. (4) The compiled "
        "kernel under set_num_threads(1..16) x chunk sizes {0,1,2,5} x 5 repetitions must be bit-identical to one thread, to py_func and to numpy.",
        "Native OpenMP/TBB schedules are sampled, not enumerated: the enumeration is over the Python definition; transfer relies on numba "
        "sharing only array elements between iterations and on step 4. A body that assigns a name defined before the loop is reported as "
        "undecided by step 2. New parallel kernels without a harness are reported as a cap.",
        "DESIGN.md section 3 C19",
    ),
}

ENGINES = [
    {
        "name": "schedules",
        "path": "vf/core/sched.py",
        "serves_properties": ["C19"],
        "kind_free_text": "AST split of prange kernels, recording array proxies, pairwise independence analysis, baton-passing virtual threads with "
        "CHESS-style iterative preemption bounding, replay determinism check",
    },
    {
        "name": "crashstates",
        "path": "vf/props/c20.py",
        "serves_properties": ["C20"],
        "kind_free_text": "write-history capture (in-process call log with on-disk snapshots; strace syscall log replayed into a byte-array "
        "model) and exhaustive enumeration of crash points and truncation lengths, each read back with the library's reader",
    },
    {
        "name": "statespace",
        "path": "vf/props/c02.py, vf/props/c10.py, vf/props/c17.py (BFS drivers) + vf/core/engine.py",
        "serves_properties": [k for k, v in CHECKS.items() if v[0] == "model_checking" and k != "C19"],
        "kind_free_text": "explicit-state breadth-first search over operation histories of a real object; canonical state key from all "
        "mutable fields; every transition executed on the implementation and compared with a reference model",
    },
    {
        "name": "lattice",
        "path": "vf/core/engine.py",
        "serves_properties": sorted(k for k, v in CHECKS.items() if v[0] == "exploration"),
        "kind_free_text": "sharded complete enumeration of a finite product of small domains, executed on the real code, "
        "compared with a numpy reference; outcome histogram + vacuity guard",
    },
]

NOT_APPLICABLE_REASON = "check not built yet in this session (work in progress; see DESIGN.md section 3 for the planned design)"


SCALE_LANE = (" In addition a scale lane pushes one or a few instances of ordinary size (tens of thousands of samples, tens to hundreds of channels, "
              "several member files, megabyte-sized reads/writes; the exact sizes are in the evidence file's bounds and rule) through the same oracle over a reduced, "
              "fully enumerated parameter set; it is exhaustive over that set, not over sizes (DESIGN.md section 10.3).")


def main() -> int:
    checks = []
    for pid in ALL:
        if pid not in CHECKS:
            continue
        cat, tech, text, note, ref = CHECKS[pid]
        text = text + SCALE_LANE
        checks.append(
            {
                "property_id": pid,
                "quick_cmd": f"./check {pid} --tier quick",
                "thorough_cmd": f"./check {pid} --tier thorough",
                "evidence_file": f"/verif/evidence/{pid}.json",
                "replay_cmd_template": f"./check {pid} --replay {{path}}",
                "engine": "schedules" if pid == "C19" else "statespace" if cat == "model_checking" else "crashstates" if cat == "fault_enumeration" else "lattice",
                "level_claimed": {"category": cat, "text": text, "design_ref": ref},
                "level_note": note,
                "technique": tech,
            },
        )
    man = {
        "version": 1,
        "setup_cmd": "./setup.sh",
        "hooks": {
            "guard": "SIGPYPROC_VERIF",
            "enable": "none needed: checks import sigpyproc from /repo's working tree via PYTHONPATH (VERIF_REPO=/repo); "
            "no source hooks exist, the guard variable is unused",
            "baseline_off_cmd": "cd /repo && /venv/bin/python -m pytest -ra -q -p no:cacheprovider --timeout=900 --continue-on-collection-errors",
            "source_commits": [],
            "add_only": True,
        },
        "engines": ENGINES,
        "checks": checks,
        "not_applicable": [{"property_id": p, "reason": NOT_APPLICABLE_REASON} for p in ALL if p not in CHECKS],
        "notes": "All checks: ./check <ID> --tier quick|thorough; VERIF_SEED selects fill/sample values only; the enumerated structure (shapes, plans, histories, "
        "schedules, crash points) is the same for every seed, except that a few value-gated comparisons are skipped and counted (skipped_ambiguous) "
        "when a drawn value sits on a rounding boundary of the specification itself. Known findings: known_findings.json. Seeded property-breaking changes: seeded/.",
    }
    (VERIF / "MANIFEST.json").write_text(json.dumps(man, indent=1) + "\n")
    try:
        import jsonschema

        schema = json.load(open("/root/.vp/MANIFEST.schema.json"))
        jsonschema.validate(man, schema)
        print("MANIFEST.json valid;", len(checks), "checks,", len(man["not_applicable"]), "not_applicable")
    except ImportError:
        print("MANIFEST.json written (jsonschema not available to validate)")
    return 0


if __name__ == "__main__":
    sys.exit(main())
