#!/bin/bash
# tools/silence.sh [tier] [seeds...] : run every registered check from a fresh process under several seeds; any non-zero exit is listed.
cd "$(dirname "$0")/.." || exit 2
tier="${1:-quick}"; shift
seeds="${*:-1 2 3}"
fail=0
for s in $seeds; do
  for c in $(python3-vt -c "import json;print(' '.join(x['property_id'] for x in json.load(open('MANIFEST.json'))['checks']))"); do
    out=$(VERIF_SEED=$s ./check $c --tier $tier 2>&1); rc=$?
    line=$(echo "$out" | grep -E "^$c tier" | tail -1)
    echo "seed=$s rc=$rc $line"
    if [ $rc -ne 0 ]; then fail=1; echo "$out" | grep -E "VIOLATION|HARNESS|detail" | head -6; fi
  done
done
exit $fail
