#!/usr/bin/env python3
"""Print the markdown list of repaired defects / open findings from known_findings.json (DESIGN.md section 10.5)."""
import json, os
d = json.load(open(os.path.join(os.path.dirname(__file__), "..", "known_findings.json")))
for e in d["findings"]:
    tag = f"`{e['commit']}`" if e.get("status") == "fixed" else "OPEN"
    print(f"* {e['id']} ({tag}): {e['what']}.")
