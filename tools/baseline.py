#!/venv/bin/python
"""Run the repository's pinned test-suite (guard off) and compare with BASELINE.json's stable_pass list.

usage: tools/baseline.py [repo_dir]     exit 0 iff every stable_pass test passed
"""
import json, os, subprocess, sys, tempfile, xml.etree.ElementTree as ET

repo = sys.argv[1] if len(sys.argv) > 1 else "/repo"
base = json.load(open("/root/.vp/BASELINE.json"))
stable = set(base["stable_pass"])
with tempfile.TemporaryDirectory() as td:
    xmlf = os.path.join(td, "junit.xml")
    env = dict(os.environ)
    for k in ("SIGPYPROC_VERIF", "NUMBA_CACHE_DIR", "NUMBA_NUM_THREADS", "PYTHONPATH"):
        env.pop(k, None)
    p = subprocess.run(
        ["/venv/bin/python", "-m", "pytest", "-ra", "-q", "-p", "no:cacheprovider", "--timeout=900",
         "--continue-on-collection-errors", f"--junitxml={xmlf}"],
        cwd=repo, env=env, capture_output=True, text=True)
    passed = set()
    failed = set()
    for tc in ET.parse(xmlf).getroot().iter("testcase"):
        name = f"{tc.get('classname')}::{tc.get('name')}"
        if any(c.tag in ("failure", "error") for c in tc):
            failed.add(name)
        elif not any(c.tag == "skipped" for c in tc):
            passed.add(name)
missing = sorted(stable - passed)
print(f"baseline: {len(passed)} passed, {len(failed)} failed; stable_pass={len(stable)}; stable not passing={len(missing)}")
for m in missing[:40]:
    print("  NOT PASSING:", m)
extra_fail = sorted(failed - stable)
if extra_fail:
    print("  (failing, not in stable list):", extra_fail[:10])
sys.exit(1 if missing else 0)
