#!/venv/bin/python
"""Validate seeded property-breaking changes kept under /verif/seeded/<id>/.

usage: tools/seeded.py [--baseline] [--tier quick] [ids...]

For every seeded change: make a scratch worktree of /repo HEAD under /tmp, apply patch.diff, (optionally) run
the repository's own test-suite there, run the demonstration with and without the patch, run the checks named
in meta.json with VERIF_REPO=<worktree> and expect exit 1 + a VIOLATION line; then remove the worktree.
Nothing is ever applied to /repo itself and nothing is committed there.
"""
from __future__ import annotations

import argparse
import json
import os
import shutil
import subprocess
import sys
import tempfile
from pathlib import Path

VERIF = Path(__file__).resolve().parents[1]
SEEDED = VERIF / "seeded"


def sh(cmd, cwd=None, env=None, timeout=3600):
    p = subprocess.run(cmd, cwd=cwd, env=env, shell=isinstance(cmd, str), capture_output=True, text=True, timeout=timeout)
    return p.returncode, p.stdout + p.stderr


def make_worktree(tag: str) -> Path:
    d = Path(tempfile.mkdtemp(prefix=f"seed-{tag}-", dir="/tmp"))
    d.rmdir()
    rc, out = sh(["git", "-C", "/repo", "worktree", "add", "--detach", "-q", str(d), "HEAD"])
    if rc:
        raise RuntimeError(out)
    egg = Path("/repo/sigpyproc.egg-info")
    if egg.exists():
        shutil.copytree(egg, d / "sigpyproc.egg-info")
    return d


def drop_worktree(d: Path) -> None:
    sh(["git", "-C", "/repo", "worktree", "remove", "--force", str(d)])
    shutil.rmtree(d, ignore_errors=True)
    sh(["git", "-C", "/repo", "worktree", "prune"])


def main() -> int:
    ap = argparse.ArgumentParser()
    ap.add_argument("ids", nargs="*")
    ap.add_argument("--baseline", action="store_true", help="also run the repository test-suite on the patched tree")
    ap.add_argument("--tier", default="quick")
    ap.add_argument("--seeds", default="0")
    args = ap.parse_args()
    ids = args.ids or sorted(p.name for p in SEEDED.iterdir() if (p / "patch.diff").exists())
    rows = []
    bad = 0
    for sid in ids:
        sdir = SEEDED / sid
        meta = json.loads((sdir / "meta.json").read_text())
        wt = make_worktree(sid)
        row = {"id": sid, "property": meta["property"]}
        try:
            env = dict(os.environ, PYTHONPATH=str(wt), NUMBA_CACHE_DIR=str(wt / ".nbcache"), MPLBACKEND="Agg")
            demo = sdir / meta.get("demo", "demo.py")
            rc0, out0 = sh(["/venv/bin/python", str(demo)], cwd=str(wt), env=env)
            row["demo_clean"] = "pass" if rc0 == 0 else f"FAIL({rc0})"
            rc, out = sh(["git", "apply", "--3way", str(sdir / "patch.diff")], cwd=str(wt))
            if rc:
                rc, out = sh(["git", "apply", str(sdir / "patch.diff")], cwd=str(wt))
            if rc:
                row["apply"] = "FAILED: " + out[-300:]
                rows.append(row)
                bad += 1
                continue
            rc1, out1 = sh(["/venv/bin/python", str(demo)], cwd=str(wt), env=env)
            row["demo_patched"] = "fails" if rc1 != 0 else "PASSES(!)"
            if args.baseline:
                rcb, outb = sh([str(VERIF / "tools" / "baseline.py"), str(wt)])
                row["suite_patched"] = "green" if rcb == 0 else "RED"
            det = {}
            for chk in meta["detected_by"]:
                for seed in args.seeds.split(","):
                    e2 = dict(os.environ, VERIF_REPO=str(wt), VERIF_SEED=seed, VF_KEEP_EVIDENCE="1")
                    rcc, outc = sh([str(VERIF / "check"), chk, "--tier", meta.get("tier", args.tier), *meta.get("check_args", [])], cwd=str(VERIF), env=e2)
                    hit = rcc == 1 and f"VIOLATION property={chk}" in outc
                    det[f"{chk}@{seed}"] = "caught" if hit else f"MISSED(rc={rcc})"
                    if not hit:
                        bad += 1
                        row["tail"] = outc[-600:]
            row["checks"] = det
            if row["demo_clean"] != "pass" or row["demo_patched"] != "fails" or row.get("suite_patched") == "RED":
                bad += 1
        finally:
            drop_worktree(wt)
        rows.append(row)
        print(json.dumps(row), flush=True)
    print(f"seeded: {len(rows)} changes, problems={bad}")
    return 1 if bad else 0


if __name__ == "__main__":
    sys.exit(main())
