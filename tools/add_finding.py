#!/venv/bin/python
"""tools/add_finding.py <PROP> <commit-subject-substring> <what> <record detail>  -> appends a 'fixed' entry."""
import json, subprocess, sys
prop, sub, what, rec = sys.argv[1:5]
p = '/verif/known_findings.json'
d = json.load(open(p))
log = subprocess.run(['git', '-C', '/repo', 'log', '--format=%h %s'], capture_output=True, text=True).stdout.splitlines()
c = [l.split()[0] for l in log if sub in l]
assert len(c) == 1, c
n = 1 + sum(1 for f in d['findings'] if f['property'] == prop)
d['findings'].append({"id": f"{prop}-F{n}", "property": prop, "status": "fixed", "commit": c[0],
                      "record": f"fixed: property={prop} {c[0]} {rec}", "what": what})
json.dump(d, open(p, 'w'), indent=1)
print("added", f"{prop}-F{n}", c[0])
