#!/bin/bash
# Offline setup: create work dirs and warm the numba cache for /repo's current tree.
cd "$(dirname "$0")" || exit 1
mkdir -p .work/numba evidence replays
export VERIF_REPO="${VERIF_REPO:-/repo}"
/venv/bin/python - <<'PY'
import sys
sys.path.insert(0, "/verif")
from vf.core import env
th = env.prepare(num_threads=1)
import sigpyproc.readers, sigpyproc.core.kernels  # eager kernels compile here
print("numba cache warmed for tree", th)
PY
